#!/usr/bin/env python3
"""Source of selftest/mutants.json (kept as Python for readable multi-line edits).  Run to regenerate."""
import json
import os

TL = "chiritori/src/code/remover/removal_evaluator/time_limited_evaluator.rs"
MK = "chiritori/src/code/remover/removal_evaluator/marker_evaluator.rs"
RM = "chiritori/src/code/remover.rs"
CH = "chiritori/src/chiritori.rs"
FM = "chiritori/src/code/formatter.rs"
UB = "chiritori/src/code/remover/marker/builder/unwrap_block_marker_builder.rs"
RB = "chiritori/src/code/remover/marker/builder/range_marker_builder.rs"
UA = "chiritori/src/code/remover/marker/availability/unwrap_block_marker_availability.rs"
TK = "chiritori/src/tokenizer.rs"
EP = "chiritori/src/element_parser.rs"
PA = "chiritori/src/parser.rs"
LS = "chiritori/src/code/list.rs"
LB = "chiritori/src/code/utils/line_break_pos_finder.rs"
CP = "chiritori/src/code/utils/char_pos_finder.rs"
BI = "chiritori/src/code/formatter/block_indent_remover.rs"
IR = "chiritori/src/code/formatter/indent_remover.rs"
EL = "chiritori/src/code/formatter/empty_line_remover.rs"
PL = "chiritori/src/code/formatter/prev_line_break_remover.rs"
NL = "chiritori/src/code/formatter/next_line_break_remover.rs"
FA = "chiritori/src/code/remover/marker/factory.rs"
CLI = "chiritori-cli/src/main.rs"
LM = "chiritori/src/code/utils/line_map.rs"
BC = "chiritori/src/code/utils/blank_counter.rs"

C = []


def mut(id, prop, expect, *edits):
    C.append({"id": id, "kind": "mutant", "property": prop, "expect": expect,
              "edits": [dict(file=f, find=a, replace=b) for f, a, b in edits]})


def benign(id, *edits):
    C.append({"id": id, "kind": "benign", "edits": [dict(file=f, find=a, replace=b) for f, a, b in edits]})


# ---------------------------------------------------------------- C05
mut("c05-lt-le", "C05", "C05.R1", (TL, "self.current_time < expires.unwrap()", "self.current_time <= expires.unwrap()"))
mut("c05-operands-swapped", "C05", "C05.R1", (TL, "self.current_time < expires.unwrap()", "expires.unwrap() < self.current_time"))
mut("c05-iserr-isok", "C05", "C05.R1", (TL, "if expires.is_err() {", "if expires.is_ok() {"))
mut("c05-unparsable-offset-falls-back-to-utc", "C05", "C05.R1", (TL, 'let expires = DateTime::parse_from_str(&expires_str, "%Y-%m-%d %H:%M:%S %z");', 'let expires = DateTime::parse_from_str(&expires_str, "%Y-%m-%d %H:%M:%S %z").or_else(|_| DateTime::parse_from_str(&format!("{} +00:00", expires_attr.unwrap().value.unwrap()), "%Y-%m-%d %H:%M:%S %z"));'))
mut("c05-hardcoded-offset", "C05", "C05.R2", (TL, "expires_str.push_str(self.time_offset.as_str());", 'expires_str.push_str("+00:00");'))
mut("c05-format-no-seconds", "C05", "C05.R2", (TL, 'parse_from_str(&expires_str, "%Y-%m-%d %H:%M:%S %z")', 'parse_from_str(&expires_str, "%Y-%m-%d %H:%M %z")'))
mut("c05-naive-local", "C05", "C05.R",
    (TL, 'let expires = DateTime::parse_from_str(&expires_str, "%Y-%m-%d %H:%M:%S %z");',
     'let expires = chrono::NaiveDateTime::parse_from_str(&expires_str, "%Y-%m-%d %H:%M:%S %z");'),
    (TL, "self.current_time < expires.unwrap()", "self.current_time.naive_local() < expires.unwrap()"))
mut("c05-registry-now", "C05", "C05.R4", (CH, "current_time: config.time_limited_configuration.current,", "current_time: chrono::Local::now(),"))
mut("c05-attr-keyword", "C05", "C05.R3", (TL, 'find(|a| a.name == "to")', 'find(|a| a.name == "until")'))
mut("c05-value-optional", "C05", "C05.R1", (TL, "if expires_attr.is_none() || expires_attr.unwrap().value.is_none() {\n            return false;", "if expires_attr.is_none() || expires_attr.unwrap().value.is_none() {\n            return true;"))
mut("c05-cli-offset", "C05", "C05.R4", (CLI, "time_offset: args.time_limited_time_offset,", 'time_offset: "+00:00".to_string(),'))

# ---------------------------------------------------------------- C06
mut("c06-substring", "C06", "C06.R1", (MK, "self.marker_removal_names.contains(name_attr_value)", "self.marker_removal_names.iter().any(|n| n.contains(name_attr_value))"))
mut("c06-ignore-case", "C06", "C06.R1", (MK, "self.marker_removal_names.contains(name_attr_value)", "self.marker_removal_names.iter().any(|n| n.eq_ignore_ascii_case(name_attr_value))"))
mut("c06-skip-first-only", "C06", "C06.R2", (RM, 'el.attrs.iter().any(|v| v.name == "skip")', 'el.attrs.first().map_or(false, |v| v.name == "skip")'))
mut("c06-skip-in-value", "C06", "C06.R2", (RM, 'el.attrs.iter().any(|v| v.name == "skip")', 'el.attrs.iter().any(|v| v.name == "skip" || v.value == Some("skip"))'))
mut("c06-skip-ignored-when-ready", "C06", "C06.R3", (RM, "let range = if is_skip(&el.start_element) {", "let range = if is_skip(&el.start_element) && collect_pending_removals {"))
mut("c06-name-prefix-match", "C06", "C06.R4", (UA, ".any(|a| a.name == self.tag_name)", ".any(|a| a.name.starts_with(self.tag_name))"))
mut("c06-marker-attr-keyword", "C06", "C06.R1", (MK, 'find(|a| a.name == "name")', 'find(|a| a.name == "id")'))
mut("c06-registry-targets-dropped", "C06", "C06.R6", (CH, "marker_removal_names: config.removal_marker_configuration.targets,", "marker_removal_names: HashSet::new(),"))

# ---------------------------------------------------------------- C03
mut("c03-recursion-only-when-not-ready", "C03", "C03.R1-3",
    (RM, "let (children, pending_removal_children) =\n                        self.collect_removable_ranges(&el.children, collect_pending_removals);",
     "let (children, pending_removal_children) = if range.is_some() {\n                        (vec![], vec![])\n                    } else {\n                        self.collect_removable_ranges(&el.children, collect_pending_removals)\n                    };"))
mut("c03-children-dropped-when-unregistered", "C03", "C03.R1-3",
    (RM, "} else {\n                        removal_tree.extend(children);\n                        pending_removal_tree.extend(pending_removal_children);",
     "} else {\n                        pending_removal_tree.extend(pending_removal_children);"))
mut("c03-children-dropped-under-pending", "C03", "C03.R1-3",
    (RM, "} else if let Some((range, false)) = range {\n                        removal_tree.extend(children);", "} else if let Some((range, false)) = range {"))
mut("c03-strategies-reordered", "C03", "C03.R4",
    (CH, """        (
            Box::new(UnwrapBlockMarkerAvailability::new("unwrap-block")),
            Box::new(UnwrapBlockMarkerBuilder { content }),
        ),
        (
            Box::new(RangeMarkerAvailability::default()),
            Box::new(RangeMarkerBuilder::default()),
        ),""", """        (
            Box::new(RangeMarkerAvailability::default()),
            Box::new(RangeMarkerBuilder::default()),
        ),
        (
            Box::new(UnwrapBlockMarkerAvailability::new("unwrap-block")),
            Box::new(UnwrapBlockMarkerBuilder { content }),
        ),"""))
mut("c03-evaluator-keys-swapped", "C03", "C03.R5",
    (CH, "config.time_limited_configuration.tag_name,\n        Box::new(", "config.removal_marker_configuration.tag_name.clone(),\n        Box::new("))
mut("c03-extent-stops-before-closing-tag", "C03", "C03.R6", (RB, "el.start_token.byte_start..el.end_token.byte_end", "el.start_token.byte_start..el.end_token.byte_start"))
mut("c03-last-strategy-wins", "C03", "C03.R4", (FA, ".find(|(availability, _)| availability.is_available(element))", ".filter(|(availability, _)| availability.is_available(element))\n        .last()"))
mut("c03-traversal-skips-first", "C03", "C03.R1-3", (RM, "contents.iter().fold(\n            (vec![], vec![]),", "contents.iter().skip(1).fold(\n            (vec![], vec![]),"))

# ---------------------------------------------------------------- C04
mut("c04-tidy-outside-loop", "C04", "C04.R2", (FM, "    merge_ranges(&mut ranges, open_structure_remove_range);", "    ranges.push(format_block(content, content.len(), formatters));\n    merge_ranges(&mut ranges, open_structure_remove_range);"))
mut("c04-verdict-arms-swapped", "C04", "C04.R1",
    (RM, "true => create(el, &self.remove_strategies).map(|f| (f, true)),", "true => create(el, &self.remove_strategies).map(|f| (f, false)),"),
    (RM, "create(el, &self.remove_strategies).map(|f| (f, false))\n", "create(el, &self.remove_strategies).map(|f| (f, true))\n"))
mut("c04-cannot-unwrap-nonempty", "C04", "C04.R3", (UB, "_ => (el.start_token.byte_start..el.start_token.byte_start, None),", "_ => (el.start_token.byte_start..el.start_token.byte_end, None),"))
mut("c04-empty-filter-dropped", "C04", "C04.R1", (RM, "if !range.is_empty() {", "if true {"))
mut("c04-clean-formats-stale-positions", "C04", "C04.R2", (CH, "let removed_pos = remover::get_removed_pos(&markers);", "let removed_pos = remover::get_removed_pos(&remover.build_remove_marker_all(&[]).into_iter().map(|v| v.0).collect::<Vec<_>>());\n    let _ = &markers;"))

# ---------------------------------------------------------------- C17
mut("c17-while-back-to-if", "C17", "C17.R2",
    (RM, "            while range_cursor < ranges_pending.len() {\n                let (pending_range, pending_idx) = &ranges_pending[range_cursor];\n\n                if pending_range.start >= range.end {\n                    break;\n                }\n",
     "            if range_cursor < ranges_pending.len() {\n                let (pending_range, pending_idx) = &ranges_pending[range_cursor];\n\n                if pending_range.start >= range.end {\n                    merged_ranges.push(((range.clone(), idx), true));\n                    continue;\n                }\n"))
mut("c17-pending-ignores-skip", "C17", "C17.R1",
    (RM, "let range = if is_skip(&el.start_element) {", "let range = if is_skip(&el.start_element) && !collect_pending_removals {"))
mut("c17-pending-tail-dropped", "C17", "C17.R2", (RM, "        if range_cursor < ranges_pending.len() {\n            merged_ranges.extend(", "        if range_cursor > ranges_pending.len() {\n            merged_ranges.extend("))
mut("c17-ready-push-conditional", "C17", "C17.R2", (RM, "            merged_ranges.push(((range.clone(), idx), true));\n        }\n\n        if range_cursor", "            if range_cursor > 0 || ranges_pending.is_empty() {\n                merged_ranges.push(((range.clone(), idx), true));\n            }\n        }\n\n        if range_cursor"))
mut("c17-pending-when-not-collecting", "C17", "C17.R1", (RM, "if collect_pending_removals {\n                                        create(el", "if collect_pending_removals || true {\n                                        create(el"))
mut("c17-ready-depends-on-flag", "C17", "C17.R1", (RM, "true => create(el, &self.remove_strategies).map(|f| (f, true)),", "true => create(el, &self.remove_strategies).map(|f| (f, !collect_pending_removals)),"))

# ---------------------------------------------------------------- C02 / C14
mut("c02-replace-with-space", "C02", "C02.R1", (RM, 'new_content.replace_range(marker.clone(), "");', 'new_content.replace_range(marker.clone(), " ");'))
mut("c02-forward-deletion", "C02", "C02.R2", (RM, "for (marker, _) in markers.iter().rev() {", "for (marker, _) in markers.iter() {"))
mut("c02-format-forward-deletion", "C02", "C02.R2", (FM, "        .into_iter()\n        .rev()\n        .fold(content.to_string()", "        .into_iter()\n        .fold(content.to_string()"))
mut("c02-overlap-merge-dropped", "C02", "C02.R3", (FM, "    merge_ranges(&mut ranges, open_structure_remove_range);\n    merge_overlapped_ranges(&mut ranges);\n", "    merge_ranges(&mut ranges, open_structure_remove_range);\n"))
mut("c02-cr-skipped", "C02", "C02.R4", (LB, "        Some(b'\\t') => CheckResult::Skip,\n        Some(b'\\n') => CheckResult::Found,", "        Some(b'\\t') => CheckResult::Skip,\n        Some(b'\\r') => CheckResult::Skip,\n        Some(b'\\n') => CheckResult::Found,"))
mut("c02-default-arm-skips", "C02", "C02.R4", (LB, "        None => CheckResult::None,\n        _ => CheckResult::None,", "        None => CheckResult::None,\n        _ => CheckResult::Skip,"))
mut("c02-scanner-step-two", "C02", "C02.R4", (LB, "            }\n        }\n\n        cursor += 1;", "            }\n        }\n\n        cursor += 2;"))
mut("c02-nonboundary-found", "C02", "C02.R4", (LB, "    if !content.is_char_boundary(*cursor) {\n        return CheckResult::Skip;\n    }\n    match bytes.get(*cursor) {\n        Some(b' ') => CheckResult::Skip,\n        Some(b'\\t') => CheckResult::Skip,\n        Some(b'\\n')", "    match bytes.get(*cursor) {\n        Some(b' ') => CheckResult::Skip,\n        Some(b'\\t') => CheckResult::Skip,\n        Some(b'\\n')"))
mut("c02-indent-underscore", "C02", "C02.R4", (IR, "                    Some(b'\\t') => {}", "                    Some(b'\\t') => {}\n                    Some(b'_') => {}"))
mut("c02-prev-remover-not-pausing", "C02", "C02.R5", (PL, "find_prev_line_break_pos(content, bytes, byte_pos, true)", "find_prev_line_break_pos(content, bytes, byte_pos, false)"))
mut("c02-empty-line-two-bytes", "C02", "C02.R6", (EL, "            (byte_pos, byte_pos + 1)", "            (byte_pos, byte_pos + 2)"))
mut("c02-empty-line-unguarded", "C02", "C02.R6", (EL, "        if bytes.get(byte_pos) != Some(&b'\\n') {\n            return (byte_pos, byte_pos);\n        }\n", ""))
mut("c02-dedent-unclamped", "C02", "C02.R6b", (BI, "let end = std::cmp::min(start + indent_len, indent_pos);", "let end = start + indent_len;"))
mut("c02-dedent-seam-unguarded", "C02", "C02.R6b", (BI, "        if bytes.get(start_byte_pos) != Some(&b'\\n') {\n            return vec![];\n        }\n", ""))
mut("c02-clean-trims-result", "C02", "C02.R1", (CH, "    formatter::format(&removed, &removed_pos, &formatter, &structure_formatters)\n}", "    formatter::format(&removed, &removed_pos, &formatter, &structure_formatters)\n        .trim_end()\n        .to_string()\n}"))
mut("c02-unwrap-head-from-tag-end", "C02", "C02.R7", (UB, "                        el.start_token.byte_start..end,", "                        el.start_token.byte_end..end,"))
mut("c02-unwrap-guard-inverted", "C02", "C02.R7", (UB, "if start >= end {", "if start <= end {"))
mut("c02-next-remover-plus-two", "C02", "C02.R6", (NL, "find_next_line_break_pos(content, bytes, pos + 1, true)", "find_next_line_break_pos(content, bytes, pos + 2, true)"))
mut("c14-char-finder-skips-newline", "C14", "C14.R1", (CP, "        Some(b'\\t') => CheckResult::Skip,", "        Some(b'\\t') => CheckResult::Skip,\n        Some(b'\\n') => CheckResult::Skip,"))
mut("c14-empty-line-not-pausing", "C14", "C14.R2", (EL, "find_next_line_break_pos(content, bytes, byte_pos, true)", "find_next_line_break_pos(content, bytes, byte_pos, false)"))
mut("c14-prev-remover-reaches-further", "C14", "C14.R3", (PL, "return (line_break_pos + 1, byte_pos);", "return (line_break_pos - 1, byte_pos);"))
mut("c14-dedent-start-unclamped", "C14", "C14.R4", (BI, "let start = std::cmp::min(current_pos + indent_ofs, indent_pos);", "let start = current_pos + indent_ofs;"))

# ---------------------------------------------------------------- C08
mut("c08-start-mismatch-not-reexamined", "C08", "C08.R1", (TK, "get_state(c, delimiter_start, delimiter_end, State::Text)", "(None, State::Text)"))
mut("c08-end-mismatch-not-reexamined", "C08", "C08.R1", (TK, "get_state(c, delimiter_start, delimiter_end, State::InDelimiter)", "(None, State::InDelimiter)"))
mut("c08-end-mismatch-checks-start-delimiter", "C08", "C08.R1", (TK, "get_state(c, delimiter_start, delimiter_end, State::InDelimiter)", "match check_delimiter_start(c, delimiter_start) {\n                            State::DelimiterStart(_) => (None, State::InDelimiter),\n                            _ => (None, State::InDelimiter),\n                        }"))

# ---------------------------------------------------------------- C09
mut("c09-newline-not-separator-after-value", "C09", "C09.R1", (EP, "State::NameBegin => match current_char {\n                                ' ' | '\\n' | '\\r' => {}", "State::NameBegin => match current_char {\n                                ' ' | '\\r' => {}"))
mut("c09-newline-not-separator-before-eq", "C09", "C09.R1", (EP, "State::NameEnd => match current_char {\n                                ' ' | '\\n' | '\\r' => {}", "State::NameEnd => match current_char {\n                                ' ' | '\\r' => {}"))
mut("c09-newline-not-separator-after-eq", "C09", "C09.R1", (EP, "State::ValueBegin => match current_char {\n                                ' ' | '\\n' | '\\r' => {}", "State::ValueBegin => match current_char {\n                                ' ' | '\\r' => {}"))
mut("c09-quoted-value-ends-at-newline", "C09", "C09.R1", (EP, "if current_char == '\"' {\n                                    pairs.last_mut().unwrap().1 = Some(&target[start..pos]);", "if current_char == '\"' || current_char == '\\n' {\n                                    pairs.last_mut().unwrap().1 = Some(&target[start..pos]);"))
mut("c09-eq-ignored-in-name", "C09", "C09.R1", (EP, "                                '=' => {\n                                    pairs.push((&target[start..pos], None));\n                                    state = State::ValueBegin\n                                }", "                                '=' => {}"))
mut("c09-value-includes-quote", "C09", "C09.R1", (EP, "state = State::ValueWithDoubleQuote(pos + 1);", "state = State::ValueWithDoubleQuote(pos);"))
mut("c09-trim-matches-back", "C09", "C09.R3", (EP, "let target = target\n                    .strip_prefix(element.delimiter_start)\n                    .unwrap_or(target);", "let target = target.trim_start_matches(element.delimiter_start);"))
mut("c09-attrs-reversed", "C09", "C09.R1", (EP, "pairs[1..]\n                    .iter()\n                    .map(", "pairs[1..]\n                    .iter()\n                    .rev()\n                    .map("))
mut("c09-single-quote-closes-double", "C09", "C09.R1", (EP, "State::ValueWithSingleQuote(start) => {\n                                if current_char == '\\'' {", "State::ValueWithSingleQuote(start) => {\n                                if current_char == '\\'' || current_char == '\"' {"))
mut("c01-empty-name-accepted-again", "C01", "C01", (EP, "if last_state == State::ParseError || pairs.is_empty() {", "if last_state == State::ParseError && !pairs.is_empty() {"))
mut("c09-tab-is-separator-in-name-only", "C09", "C09.R1", (EP, "State::Name(start) => match current_char {\n                                ' ' | '\\n' | '\\r' => {", "State::Name(start) => match current_char {\n                                ' ' | '\\n' | '\\r' | '*' => {"))

# ---------------------------------------------------------------- C10
mut("c10-hoisted-children-dropped", "C10", "C10.R1", (PA, "                            let mut parts = vec![ContentPart::Text(Text { token: t })];\n                            parts.extend(children);\n\n                            State::Hoisted((parts, end_token, end_el))", "                            let parts = vec![ContentPart::Text(Text { token: t })];\n\n                            State::Hoisted((parts, end_token, end_el))"))
mut("c10-unclosed-children-dropped", "C10", "C10.R1", (PA, "                        let mut parts = vec![ContentPart::Text(Text { token: t })];\n                        parts.extend(children);\n\n                        State::Content(parts)", "                        let parts = vec![ContentPart::Text(Text { token: t })];\n\n                        State::Content(parts)"))
mut("c10-token-duplicated", "C10", "C10.R1", (PA, "            _ => State::Content(vec![ContentPart::Text(Text { token: t })]),", "            _ => State::Content(vec![\n                ContentPart::Text(Text { token: t }),\n                ContentPart::Text(Text { token: t }),\n            ]),"))
mut("c10-hoisted-parts-not-spliced", "C10", "C10.R1", (PA, "            State::Hoisted((parsed, t, el)) => {\n                parts.extend(parsed);", "            State::Hoisted((parsed, t, el)) => {\n                let _ = parsed;"))
mut("c10-closer-prefix-match", "C10", "C10.R2", (PA, ".any(|parent_el| parent_el.name == pair_name)", ".any(|parent_el| parent_el.name.starts_with(pair_name))"))
mut("c10-parse-starts-at-one", "C10", "C10.R1", (PA, "    tree(tokens, 0, &mut content_parts, vec![]);", "    tree(tokens, 1, &mut content_parts, vec![]);"))

# ---------------------------------------------------------------- C12
mut("c12-dedent-plain-subtraction", "C12", "C12.R2", (BI, "first_indent_len.saturating_sub(indent_ofs)", "first_indent_len - indent_ofs"))
mut("c12-dedent-wrapping", "C12", "C12.R2", (BI, "first_indent_len.saturating_sub(indent_ofs)", "first_indent_len.wrapping_sub(indent_ofs)"))
mut("c12-byte0-exit-before-check", "C12", "C12.R3", (LB, "        if cursor >= bytes.len() {\n            break None;\n        }\n\n        match check(content, bytes, &cursor) {\n            CheckResult::Skip => {}\n            CheckResult::Found => break Some(cursor),\n            CheckResult::None => {\n                if pause_on_char {\n                    break None;\n                }\n            }\n        }\n\n        if cursor == 0 {\n            break None;\n        }", "        if cursor >= bytes.len() || cursor == 0 {\n            break None;\n        }\n\n        match check(content, bytes, &cursor) {\n            CheckResult::Skip => {}\n            CheckResult::Found => break Some(cursor),\n            CheckResult::None => {\n                if pause_on_char {\n                    break None;\n                }\n            }\n        }"))
mut("c12-splice-without-rebase", "C12", "C12.R4", (RM, """                    acc.extend(child_markers[start_cursor..end_cursor].iter().map(
                        |(range, pair)| {
                            let pair = match pair {
                                Some(p) if start_cursor <= *p && *p < end_cursor => {
                                    Some(*p - start_cursor + current + 1)
                                }
                                _ => None,
                            };
                            (range.clone(), pair)
                        },
                    ));""", "                    acc.extend(child_markers[start_cursor..end_cursor].to_owned());"))
mut("c12-rebase-off-by-one", "C12", "C12.R4", (RM, "Some(*p - start_cursor + current + 1)", "Some(*p - start_cursor + current)"))
mut("c12-rebase-unguarded-upper", "C12", "C12.R4", (RM, "Some(p) if start_cursor <= *p && *p < end_cursor => {", "Some(p) if start_cursor <= *p => {"))
mut("c12-tail-index-absolute", "C12", "C12.R4", (RM, "acc.push((end_marker, Some(current)));", "acc.push((end_marker, Some(0)));"))
mut("c12-head-index-ignores-children", "C12", "C12.R4", (RM, "acc.push((marker, Some(current + (end_cursor - start_cursor) + 1)));", "acc.push((marker, Some(current + 1)));"))
mut("c12-block-ranges-unsorted", "C12", "C12.R5", (FM, "    open_structure_remove_range.sort_by_key(|r| r.start);\n", ""))
mut("c12-block-ranges-sorted-by-end-desc", "C12", "C12.R5", (FM, "open_structure_remove_range.sort_by_key(|r| r.start);", "open_structure_remove_range.sort_by_key(|r| std::cmp::Reverse(r.end));"))
mut("c12-dedent-end-unclamped", "C12", "C12.R1", (BI, "let end = std::cmp::min(start + indent_len, indent_pos);", "let end = start + indent_len;"))

# ---------------------------------------------------------------- C15
mut("c15-list-swapped-delimiters", "C15", "C15.R1", (CH, "    format: ListFormat,\n) -> Result<String, ListError> {\n    let (delimiter_start, delimiter_end) = delimiters;\n    let tokens = tokenizer::tokenize(&content, &delimiter_start, &delimiter_end);\n\n    let parsed = parser::parse(&tokens);\n    let remover = build_remover(config, content.clone());\n    let markers: Vec<_> = remover", "    format: ListFormat,\n) -> Result<String, ListError> {\n    let (delimiter_start, delimiter_end) = delimiters;\n    let tokens = tokenizer::tokenize(&content, &delimiter_end, &delimiter_start);\n\n    let parsed = parser::parse(&tokens);\n    let remover = build_remover(config, content.clone());\n    let markers: Vec<_> = remover"))
mut("c15-list-filters-markers", "C15", "C15.R1", (CH, "        .into_iter()\n        .map(|v| (v, true))\n        .collect();", "        .into_iter()\n        .filter(|v| v.1.is_none())\n        .map(|v| (v, true))\n        .collect();"))
mut("c15-remove-uses-own-collection", "C15", "C15.R1", (RM, "        let markers = self.build_remove_marker(&content);\n        let mut new_content", "        let markers: Vec<RemoveMarker> = self.build_remove_marker_all(&content).into_iter().map(|v| v.0).collect();\n        let mut new_content"))
mut("c15-env-in-library", "C15", "C15.R2", (RM, "fn is_skip(el: &Element) -> bool {\n    el.attrs", "fn is_skip(el: &Element) -> bool {\n    std::env::var(\"CHIRITORI_NO_SKIP\").is_err()\n        && el.attrs"))
mut("c15-hashset-iteration", "C15", "C15.R2", (MK, "self.marker_removal_names.contains(name_attr_value)", "self.marker_removal_names.iter().next().map_or(false, |n| n == name_attr_value)"))
mut("c15-clean-different-remover", "C15", "C15.R1", (CH, "    let remover = build_remover(config, content.clone());\n    let (removed, markers) = remover.remove(parsed, &content);", "    let remover = build_remover(config, Rc::new(content.to_uppercase()));\n    let (removed, markers) = remover.remove(parsed, &content);"))
# ---------------------------------------------------------------- C16
mut("c16-serde-rename", "C16", "C16.R1", (LS, "#[derive(Debug, PartialEq, Serialize)]\npub struct ListItem {\n    line_range", "#[derive(Debug, PartialEq, Serialize)]\npub struct ListItem {\n    #[serde(rename = \"lines\")]\n    line_range"))
mut("c16-status-swapped", "C16", "C16.R1", (LS, "                    true => ItemStatus::Ready,\n                    false => ItemStatus::Pending,", "                    true => ItemStatus::Pending,\n                    false => ItemStatus::Ready,"))
mut("c16-coloring-changes-text", "C16", "C16.R2", (LS, "    let color_end = end.min(line_end);", "    let color_end = if coloring { end.min(line_end) } else { end };"))
mut("c16-colour-const-not-sgr", "C16", "C16.R2", (LS, 'const RESET_COLOR: &str = "\\x1b[0m";', 'const RESET_COLOR: &str = "\\x1b[0m ";'))
mut("c16-json-without-line-map", "C16", "C16.R1", (CH, "        ListFormat::JSON => serde_json::to_string(&build_list(&content, &markers, Some(&line_map)))\n            .map_err(|_| ListError::JSONSerializeError),\n    }\n}\n\npub fn list_all(", "        ListFormat::JSON => serde_json::to_string(&build_list(&content, &markers, None))\n            .map_err(|_| ListError::JSONSerializeError),\n    }\n}\n\npub fn list_all("))
mut("c16-r10-start-ofs-plus", "C16", "C16.R10", (LS, "    let marker_start_ofs_len = start - line_start;", "    let marker_start_ofs_len = start + line_start;"))
mut("c16-r10-end-ofs-no-minus1", "C16", "C16.R10", (LS, "    let marker_end_ofs_len = end - line_end_start_pos - 1;", "    let marker_end_ofs_len = end - line_end_start_pos;"))
mut("c16-r10-start-tab-padding-dropped", "C16", "C16.R10", (LS, "    result.push_str(&TABSPACE.to_string().repeat(marker_start_tab_len));\n", ""))
mut("c16-r10-end-padding-plus-tabs", "C16", "C16.R10", (LS, '    result.push_str(&" ".repeat(marker_end_ofs_len + line_number_ofs - marker_end_tab_len));', '    result.push_str(&" ".repeat(marker_end_ofs_len + line_number_ofs + marker_end_tab_len));'))
mut("c16-r10-start-padding-without-number-column", "C16", "C16.R10", (LS, '    result.push_str(&" ".repeat(line_number_ofs + marker_start_ofs_len - marker_start_tab_len));', '    result.push_str(&" ".repeat(marker_start_ofs_len - marker_start_tab_len));'))
mut("c16-r10-offset-without-numbers-1", "C16", "C16.R10", (LS, "        (&removed, 0)", "        (&removed, 1)"))
mut("c16-r10-number-column-wider", "C16", "C16.R10", (LS, 'width = LINE_COLUMN_WIDTH - 2);', 'width = LINE_COLUMN_WIDTH - 1);'))
mut("c16-r10-number-column-extra-space", "C16", "C16.R10", (LS, 'format!("{:width$} {}", i, "|", width', 'format!("{:width$} {} ", i, "|", width'))
mut("c16-r10-offset-smaller-than-column", "C16", "C16.R10", (LS, "            LINE_COLUMN_WIDTH,\n        )\n    } else {", "            LINE_COLUMN_WIDTH - 1,\n        )\n    } else {"))
benign("c16-r10-benign-padding-one-repeat-order", (LS, '    result.push_str(&" ".repeat(line_number_ofs + marker_start_ofs_len - marker_start_tab_len));', '    result.push_str(&" ".repeat(marker_start_ofs_len - marker_start_tab_len + line_number_ofs));'))
benign("c16-r10-benign-named-pad", (LS, '    result.push_str(&" ".repeat(marker_end_ofs_len + line_number_ofs - marker_end_tab_len));', '    let end_pad = marker_end_ofs_len + line_number_ofs - marker_end_tab_len;\n    result.push_str(&" ".repeat(end_pad));'))
benign("c16-r10-benign-column-literal-bar", (LS, 'format!("{:width$} {}", i, "|", width', 'format!("{:width$} |", i, width'))
benign("c16-r10-benign-named-width-const-inline-arg", (LS, 'const LINE_COLUMN_WIDTH: usize = 9;', 'const LINE_COLUMN_WIDTH: usize = 9;\nconst LINE_NUMBER_WIDTH: usize = LINE_COLUMN_WIDTH - 2;'), (LS, '                    let line_column =\n                        format!("{:width$} {}", i, "|", width = LINE_COLUMN_WIDTH - 2);', '                    let line_column = format!("{i:LINE_NUMBER_WIDTH$} |");'))
mut("c16-r10-named-width-const-column-too-narrow", "C16", "C16.R10", (LS, 'const LINE_COLUMN_WIDTH: usize = 9;', 'const LINE_COLUMN_WIDTH: usize = 9;\nconst LINE_NUMBER_WIDTH: usize = LINE_COLUMN_WIDTH - 2;'), (LS, '                    let line_column =\n                        format!("{:width$} {}", i, "|", width = LINE_COLUMN_WIDTH - 2);', '                    let line_column = format!("{i:LINE_NUMBER_WIDTH$}|");'))
mut("c16-r10-named-width-const-off", "C16", "C16.R10", (LS, 'const LINE_COLUMN_WIDTH: usize = 9;', 'const LINE_COLUMN_WIDTH: usize = 9;\nconst LINE_NUMBER_WIDTH: usize = LINE_COLUMN_WIDTH - 3;'), (LS, '                    let line_column =\n                        format!("{:width$} {}", i, "|", width = LINE_COLUMN_WIDTH - 2);', '                    let line_column = format!("{i:LINE_NUMBER_WIDTH$} |");'))
mut("c16-json-item-different-args", "C16", "C16.R2", (LS, "                *is_removal,\n                false,\n                line_range,", "                true,\n                false,\n                line_range,"))
mut("c16-byte0-exit-before-check", "C16", "C16.R3", (LB, "        if cursor >= bytes.len() {\n            break None;\n        }\n\n        match check(content, bytes, &cursor) {\n            CheckResult::Skip => {}\n            CheckResult::Found => break Some(cursor),\n            CheckResult::None => {\n                if pause_on_char {\n                    break None;\n                }\n            }\n        }\n\n        if cursor == 0 {\n            break None;\n        }", "        if cursor >= bytes.len() || cursor == 0 {\n            break None;\n        }\n\n        match check(content, bytes, &cursor) {\n            CheckResult::Skip => {}\n            CheckResult::Found => break Some(cursor),\n            CheckResult::None => {\n                if pause_on_char {\n                    break None;\n                }\n            }\n        }"))
mut("c16-colour-used-for-width", "C16", "C16.R2", (LS, "    result.push_str(&\" \".repeat(line_number_ofs + marker_start_ofs_len - marker_start_tab_len));", "    result.push_str(&\" \".repeat(line_number_ofs + marker_start_ofs_len - marker_start_tab_len + marker_start_color.len()));"))

# ---------------------------------------------------------------- C18
mut("c18-default-tag-literal", "C18", "C18.R1", (RM, "fn is_skip(el: &Element) -> bool {\n    el.attrs", "fn is_skip(el: &Element) -> bool {\n    el.name != \"time-limited\" && el.attrs", ))
mut("c18-hardcoded-length", "C18", "C18.R2", (TK, "(tokens, next_state, byte_start_pos, start_pos, current + 1)", "(tokens, next_state, byte_start_pos, start_pos, current + 1 + (delimiter_start.len() / 6) * 0 + 4 - 4)"))
mut("c18-delimiter-by-length", "C18", "C18.R3", (TK, "    let mut delimiter_start_chars = delimiter_start.chars();\n\n    if *c == delimiter_start_chars.next().unwrap() {", "    let mut delimiter_start_chars = delimiter_start.chars();\n\n    if delimiter_start.len() < 64 && *c == delimiter_start_chars.next().unwrap() {"))
mut("c18-trim-matches-back", "C18", "C18.R", (EP, "let target = target.strip_suffix(element.delimiter_end).unwrap_or(target);", "let target = target.trim_end_matches(element.delimiter_end);"))
mut("c18-unknown-keyword", "C18", "C18.R1", (TL, 'find(|a| a.name == "to")', 'find(|a| a.name == "to" || a.name == "until")'))
# ---------------------------------------------------------------- C20
mut("c20-delimiters-swapped-in-list-all", "C20", "C20.R1", (CLI, "        list_all(\n            content,\n            (args.delimiter_start, args.delimiter_end),", "        list_all(\n            content,\n            (args.delimiter_end, args.delimiter_start),"))
mut("c20-println", "C20", "C20.R4", (CLI, 'print!("{}", output);', 'println!("{}", output);'))
mut("c20-create-before-read", "C20", "C20.R5", (CLI, "    let args = Args::parse();\n\n    let mut content = String::new();", "    let args = Args::parse();\n    let mut out_file = args.output.as_ref().map(|f| File::create(f).expect(\"file not found\"));\n\n    let mut content = String::new();"), (CLI, "        let mut f = File::create(filename).expect(\"file not found\");\n        f.write_all", "        let _ = filename;\n        let f = out_file.as_mut().unwrap();\n        f.write_all"))
mut("c20-flag-targets-dropped", "C20", "C20.R2", (CLI, "        .into_iter()\n        .chain(args.removal_marker_target_name)\n        .collect();", "        .into_iter()\n        .collect();\n    let _ = args.removal_marker_target_name;"))
mut("c20-default-changed", "C20", "C20.R7", (CLI, '#[arg(long, default_value = "> -->")]', '#[arg(long, default_value = "-->")]'))
mut("c20-target-default-back", "C20", "C20.R", (CLI, "    #[arg(long)]\n    removal_marker_target_name: Vec<String>,", '    #[arg(long, default_value = "vec![]")]\n    removal_marker_target_name: Vec<String>,'))
mut("c06-target-default-back", "C06", "C06.R5", (CLI, "    #[arg(long)]\n    removal_marker_target_name: Vec<String>,", '    #[arg(long, default_value = "vec![]")]\n    removal_marker_target_name: Vec<String>,'))
mut("c20-list-all-dispatched-to-list", "C20", "C20.R3", (CLI, "    } else if args.list_all {\n        list_all(", "    } else if args.list_all {\n        list("))
mut("c20-env-tz", "C20", "C20.R8", (CLI, "    let content = Rc::new(content);", '    let _tz = std::env::var("TZ");\n    let content = Rc::new(content);'))
mut("c20-config-lines-trimmed", "C20", "C20.R2", (CLI, "    reader.lines().map_while(Result::ok).collect::<Vec<_>>()", "    reader\n        .lines()\n        .map_while(Result::ok)\n        .map(|l| l.trim().to_string())\n        .collect::<Vec<_>>()"))
mut("c20-json-flag-ignored-for-list-all", "C20", "C20.R3", (CLI, "            config,\n            convert_list_format(args.list_json),\n        )\n        .unwrap()\n    } else {", "            config,\n            convert_list_format(false),\n        )\n        .unwrap()\n    } else {"))
mut("c20-content-trimmed", "C20", "C20.R6", (CLI, "    let content = Rc::new(content);", "    let content = Rc::new(content.trim_end().to_string());"))
mut("c20-current-naive", "C20", "C20.R1", (CLI, ".parse::<chrono::DateTime<chrono::Local>>()\n                .unwrap_or(chrono::Local::now()),", ".parse::<chrono::DateTime<chrono::Utc>>()\n                .map(|t| t.with_timezone(&chrono::Local))\n                .unwrap_or(chrono::Local::now()),"))
mut("c20-output-appends-newline", "C20", "C20.R4", (CLI, "        f.write_all(output.as_bytes())", "        f.write_all(format!(\"{}\\n\", output).as_bytes())"))

# ---------------------------------------------------------------- C07
mut("c07-final-flush-plus-one", "C07", "C07.R",
    (TK, "        Some(_) => match token_kind {", "        Some((byte_pos, _)) => match token_kind {"),
    (TK, "                end: current,\n                byte_end: source.len(),\n            }),\n            _ => Some(Token {", "                end: current,\n                byte_end: byte_pos + 1,\n            }),\n            _ => Some(Token {"))
mut("c07-unit-mix-start", "C07", "C07.R3", (TK, "                        start: start_pos,\n                        byte_start: byte_start_pos,\n                        end: current,\n                        byte_end: byte_pos,", "                        start: byte_start_pos,\n                        byte_start: byte_start_pos,\n                        end: current,\n                        byte_end: byte_pos,"))
mut("c07-value-offsets-disagree", "C07", "C07.R2", (TK, "                        value: &source[byte_start_pos..byte_pos],\n                        kind: token_kind,\n                        start: start_pos,\n                        byte_start: byte_start_pos,\n                        end: current,\n                        byte_end: byte_pos,", "                        value: &source[byte_start_pos..byte_pos],\n                        kind: token_kind,\n                        start: start_pos,\n                        byte_start: byte_start_pos,\n                        end: current,\n                        byte_end: byte_start_pos,"))
mut("c07-merge-forgets-char-end", "C07", "C07.R2", (TK, "                        last_token.end = cur.end;\n", ""))
mut("c07-cursors-not-in-tandem", "C07", "C07.R2", (TK, "                start_pos = current;\n                byte_start_pos = byte_pos;", "                byte_start_pos = byte_pos;"))
mut("c07-char-counter-by-bytes", "C07", "C07.R3", (TK, "(tokens, next_state, byte_start_pos, start_pos, current + 1)", "(tokens, next_state, byte_start_pos, start_pos, current + c.len_utf8())"))
mut("c07-token-built-in-parser", "C07", "C07.R4", (PA, "    let mut content_parts: Vec<ContentPart<'a, 'b, 'c, 'd>> = vec![];\n", "    let mut content_parts: Vec<ContentPart<'a, 'b, 'c, 'd>> = vec![];\n    let _probe = tokenizer::Token { kind: tokenizer::TokenKind::Text, value: \"\", start: 0, byte_start: 0, end: 0, byte_end: 1 };\n"))
mut("c07-merge-skipped", "C07", "C07.R4", (TK, "    tokens.into_iter().fold(vec![], |mut acc, cur| {", "    if tokens.len() < 2 {\n        return tokens;\n    }\n    tokens.into_iter().fold(vec![], |mut acc, cur| {"))

# ---------------------------------------------------------------- C01
mut("c01-saturating-sub-dropped", "C01", "C01.OB", (BI, "first_indent_len.saturating_sub(indent_ofs)", "first_indent_len - indent_ofs"))
mut("c01-merge-ranges-empty-guard-dropped", "C01", "C01.OB", (FM, "    if ranges.is_empty() {\n        return;\n    }\n\n    let mut cursor = Some(ranges.len() - 1);", "    let mut cursor = Some(ranges.len() - 1);"))
mut("c01-checked-get-to-index", "C01", "C01.OB", (LB, "    match bytes.get(*cursor) {\n        Some(b' ') => CheckResult::Skip,\n        Some(b'\\t') => CheckResult::Skip,\n        Some(b'\\n') => CheckResult::Found,\n        None => CheckResult::None,\n        _ => CheckResult::None,\n    }", "    match bytes[*cursor] {\n        b' ' => CheckResult::Skip,\n        b'\\t' => CheckResult::Skip,\n        b'\\n' => CheckResult::Found,\n        _ => CheckResult::None,\n    }"))
mut("c01-merge-markers-cursor-guard-dropped", "C01", "C01.OB", (RM, "if start_cursor > end_cursor || marker.end >= end_marker.start {", "if marker.end >= end_marker.start {"))
mut("c01-byte-start-off-by-one", "C01", "C01.OB", (TK, "                byte_start_pos = byte_pos;", "                byte_start_pos = byte_pos + 1;"))
mut("c01-empty-filter-dropped", "C01", "C01.OB", (RM, "if !range.is_empty() {", "if true {"))
mut("c01-new-unwrap", "C01", "C01.OB", (PA, "    tree(tokens, 0, &mut content_parts, vec![]);", "    let _first = tokens.first().unwrap();\n    tree(tokens, 0, &mut content_parts, vec![]);"))
mut("c01-block-seam-guard-dropped", "C01", "C01", (BI, "        if bytes.get(start_byte_pos) != Some(&b'\\n') {\n            return vec![];\n        }\n", ""))
mut("c01-splice-without-rebase", "C01", "C01.OB", (RM, """                    acc.extend(child_markers[start_cursor..end_cursor].iter().map(
                        |(range, pair)| {
                            let pair = match pair {
                                Some(p) if start_cursor <= *p && *p < end_cursor => {
                                    Some(*p - start_cursor + current + 1)
                                }
                                _ => None,
                            };
                            (range.clone(), pair)
                        },
                    ));""", "                    acc.extend(child_markers[start_cursor..end_cursor].to_owned());"))
mut("c01-quote-start-plus-two", "C01", "C01.OB", (EP, "state = State::ValueWithDoubleQuote(pos + 1);", "state = State::ValueWithDoubleQuote(pos + 2);"))
mut("c01-indent-zero-guard-dropped", "C01", "C01.OB", (IR, "            if cursor == 0 {\n                break false;\n            }\n\n            cursor -= 1;", "            cursor -= 1;"))
mut("c01-indent-bounds-guard-dropped", "C01", "C01.OB", (IR, "if cursor >= bytes.len() || !content.is_char_boundary(cursor) || bytes[cursor] != b'\\n' {", "if !content.is_char_boundary(cursor) || bytes[cursor] != b'\\n' {"))
mut("c01-cli-filename-test-inverted", "C01", "C01.OB", (CLI, "    if args.filename.is_none() {\n        if atty::isnt", "    if args.filename.is_some() {\n        if atty::isnt"))
mut("c01-list-end-minus-two", "C01", "C01.OB", (LS, "    let line_end =\n        find_next_line_break_pos(content, bytes, end - 1, false).unwrap_or(content.len());", "    let line_end =\n        find_next_line_break_pos(content, bytes, end - 2, false).unwrap_or(content.len());"))
mut("c01-summary-broken-in-callee", "C01", "C01.S", (LB, "            CheckResult::Found => break Some(cursor),\n            CheckResult::None => {\n                if pause_on_char {\n                    break None;\n                }\n            }\n        }\n\n        if cursor == 0 {", "            CheckResult::Found => break Some(cursor + 1),\n            CheckResult::None => {\n                if pause_on_char {\n                    break None;\n                }\n            }\n        }\n\n        if cursor == 0 {"))
mut("c01-final-flush-plus-one", "C01", "C01.OB",
    (TK, "        Some(_) => match token_kind {", "        Some((byte_pos, _)) => match token_kind {"),
    (TK, "            _ => Some(Token {\n                value: &source[byte_start_pos..],", "            _ => Some(Token {\n                value: &source[byte_start_pos..byte_pos + 1],"))
mut("c01-unsafe-unchecked", "C01", "C01.unsafe", (LS, "    let bytes = content.as_bytes();\n    let line_start", "    let bytes = content.as_bytes();\n    let _probe = unsafe { content.get_unchecked(0..0) };\n    let line_start"))
mut("c01-removed-len-before-push", "C01", "C01.OB", (RM, "                positions.push((marker.start - removed_len, *pair_pos));\n                removed_len += marker.end - marker.start;", "                removed_len += marker.end - marker.start;\n                positions.push((marker.start - removed_len, *pair_pos));"))
mut("c14-removed-len-forgotten", "C14", "C14.R8", (RM, "                removed_len += marker.end - marker.start;\n", ""))
mut("c14-removed-len-counts-end", "C14", "C14.R8", (RM, "                removed_len += marker.end - marker.start;\n", "                removed_len += marker.end;\n"))
mut("c13-seam-before-update", "C13", "C13.D:C14.R8", (RM, "                positions.push((marker.start - removed_len, *pair_pos));\n                removed_len += marker.end - marker.start;", "                removed_len += marker.end - marker.start;\n                positions.push((marker.start - removed_len, *pair_pos));"))
mut("c07-empty-token-guard-sum", "C07", "C07.R6", (TK, "if (byte_pos - byte_start_pos) > 0 {", "if (byte_pos + byte_start_pos) > 0 {"))
mut("c07-empty-token-guard-ge", "C07", "C07.R6", (TK, "if (byte_pos - byte_start_pos) > 0 {", "if byte_pos >= byte_start_pos {"))
mut("c07-trailing-token-on-empty-source", "C07", "C07.R6", (TK, "        None => None,\n    };\n\n    if let Some(token) = additional_token", "        None => Some(Token { value: &source[byte_start_pos..], kind: TokenKind::Text, start: start_pos, byte_start: byte_start_pos, end: current, byte_end: source.len() }),\n    };\n\n    if let Some(token) = additional_token"))
mut("c17-pending-cursor-by-two", "C17", "C17.R2", (RM, "                range_cursor += 1;", "                range_cursor += 2;"))
mut("c03-fused-marker-dropped", "C03", "C03.R8", (RM, "                    acc.push((marker.start..end_marker.end, None));\n", ""))
mut("c03-tail-marker-dropped", "C03", "C03.R8", (RM, "                    acc.push((end_marker, Some(current)));\n", ""))
mut("c03-plain-marker-only-without-children", "C03", "C03.R8", (RM, "                acc.push((marker, None));\n", "                if child_markers.is_empty() {\n                    acc.push((marker, None));\n                }\n"))
# the C12 known finding repaired in a scratch copy: the rule must be silent there (and must report a wrong repair)
benign("c12-start-of-file-repaired", (BI, "            None => 0,\n", "            None if bytes[..start_byte_pos].iter().all(|b| *b == b' ' || *b == b'\\t') => start_byte_pos,\n            None => 0,\n"))
mut("c12-start-of-file-wrong-repair", "C12", "C12.R2b", (BI, "            None => 0,\n", "            None => start_byte_pos,\n"))
mut("c17-squash-strict-end-regression", "C17", "C17.R4", (RM, "range.contains(&pending_range.start) && pending_range.end <= range.end;", "range.contains(&pending_range.start) && range.contains(&pending_range.end);"))
mut("c10-closer-strips-every-slash-regression", "C10", "C10.R6", (PA, 'let pair_name = el.name.strip_prefix("/").unwrap_or(el.name);', 'let pair_name = el.name.trim_start_matches("/");'), (PA, 'if el.name == end_el.name.strip_prefix("/").unwrap_or(end_el.name) {', 'if el.name == end_el.name.trim_start_matches("/") {'))
mut("c16-find-line-break-on-next-line-regression", "C16", "C16.R7", (LM, "position(|v| *v >= needle)", "position(|v| *v > needle)"))
mut("c09-cr-not-separator-regression", "C09", "C09.R1", (EP, "State::NameEnd => match current_char {\n                                ' ' | '\\n' | '\\r' => {}", "State::NameEnd => match current_char {\n                                ' ' | '\\n' => {}"))
mut("c01-recursive-tab-count", "C01", "C01.REC", (BC, "pub fn count_tabspace(s: &str) -> usize {\n    s.chars()\n        .fold(0, |acc, v| if v == '\\t' { acc + 1 } else { acc })\n}", "pub fn count_tabspace(s: &str) -> usize {\n    match s.chars().next() {\n        None => 0,\n        Some(c) => usize::from(c == '\\t') + count_tabspace(&s[c.len_utf8()..]),\n    }\n}"))

# ---------------------------------------------------------------- C11
mut("c11-two-lines-regression", "C11", "C11.R2", (UB, "if start >= end {", "if start > end {"))
mut("c11-head-ends-at-first-break", "C11", "C11.R1", (UB, "            find_next_line_break_pos(self.content.as_ref(), bytes, el.start_token.byte_end, false)\n                .and_then(|pos| {\n                    find_next_line_break_pos(self.content.as_ref(), bytes, pos + 1, false)\n                });", "            find_next_line_break_pos(self.content.as_ref(), bytes, el.start_token.byte_end, false);"))
mut("c11-tail-from-first-break", "C11", "C11.R1", (UB, "            find_prev_line_break_pos(self.content.as_ref(), bytes, el.end_token.byte_start, false)\n                .and_then(|pos| find_prev_line_break_pos(self.content.as_ref(), bytes, pos, false));", "            find_prev_line_break_pos(self.content.as_ref(), bytes, el.end_token.byte_start, false);"))
mut("c11-wrapper-scan-pausing", "C11", "C11.R1", (UB, "find_next_line_break_pos(self.content.as_ref(), bytes, pos + 1, false)", "find_next_line_break_pos(self.content.as_ref(), bytes, pos + 1, true)"))
mut("c11-strategy-keyword", "C11", "C11.R3", (CH, 'UnwrapBlockMarkerAvailability::new("unwrap-block")', 'UnwrapBlockMarkerAvailability::new("unwrap")'))
mut("c11-pair-without-ordering-test", "C11", "C11.R2", (UB, "if start >= end {", "if start >= end || start + 1 >= end {"))

# ---------------------------------------------------------------- C13
mut("c13-empty-line-ignores-next", "C13", "C13.R3", (EL, "        if is_not_next_line_empty && is_not_prev_line_empty {", "        if is_not_prev_line_empty {"))
mut("c13-empty-line-or", "C13", "C13.R3", (EL, "        if is_not_next_line_empty && is_not_prev_line_empty {", "        if is_not_next_line_empty || is_not_prev_line_empty {"))
mut("c13-prev-remover-single-break", "C13", "C13.R4", (PL, "        let line_break_pos = find_prev_line_break_pos(content, bytes, byte_pos, true)\n            .and_then(|pos| find_prev_line_break_pos(content, bytes, pos, true));", "        let line_break_pos = find_prev_line_break_pos(content, bytes, byte_pos, true);"))
mut("c13-next-remover-single-break", "C13", "C13.R4", (NL, "        let line_break_pos = find_next_line_break_pos(content, bytes, byte_pos, true)\n            .and_then(|pos| find_next_line_break_pos(content, bytes, pos + 1, true));", "        let line_break_pos = find_next_line_break_pos(content, bytes, byte_pos, true);"))
mut("c13-hull-intersection", "C13", "C13.R1", (FM, "        let start = start.min(range.start);\n        let end = end.max(range.end);", "        let start = start.max(range.start);\n        let end = end.max(range.end);"))
mut("c13-formatter-dropped", "C13", "C13.R1", (CH, "        Box::new(formatter::prev_line_break_remover::PrevLineBreakRemover {}),\n", ""))
mut("c13-formatter-asked-elsewhere", "C13", "C13.R1", (FM, "        let (start, end) = f.format(content, pos);", "        let (start, end) = f.format(content, range.end);"))

# ---------------------------------------------------------------- rules added after the sub-agent rounds
mut("c08-empty-body-accepted", "C08", "C08.R3", (TK, "                None => (None, State::InDelimiter),", "                None => get_state(c, delimiter_start, delimiter_end, State::InDelimiter),"))
mut("c16-lines-trimmed", "C16", "C16.R5", (LS, '.map(|l| format!("{line_column}{l}\\n"))', '.map(|l| format!("{line_column}{}\\n", l.trim_end()))'))
# constructs that tools/mutation_audit.py found unreported (DESIGN section 12): one mutant per new rule
mut("a-c11-second-scan-not-resumed-behind", "C11", "C11.R1", (UB, "bytes, pos + 1, false)", "bytes, pos, false)"))
mut("a-c10-cursor-skips-a-token", "C10", "C10.R7", (PA, "        cursor += 1;\n", "        cursor += 2;\n"))
mut("a-c10-cursor-not-continued", "C10", "C10.R7", (PA, "                    cursor = new_cursor;\n", ""))
mut("a-c10-pairing-inverted", "C10", "C10.R8", (PA, 'if el.name == end_el.name.strip_prefix("/").unwrap_or(end_el.name) {', 'if el.name != end_el.name.strip_prefix("/").unwrap_or(end_el.name) {'))
mut("a-c10-opener-not-on-stack", "C10", "C10.R9", (PA, "                    next_parent_elements.push(&el);\n", ""))
mut("a-c02-merge-keeps-stale-range", "C02", "C02.R3b", (FM, "    ranges.truncate(write_cursor + 1);", "    ranges.truncate(write_cursor + 2);"))
mut("a-c02-merge-skips-index-1", "C02", "C02.R3b", (FM, "    for read_cursor in 1..ranges.len() {", "    for read_cursor in 2..ranges.len() {"))
mut("a-c02-indent-scan-does-not-move", "C02", "C02.R4", (IR, "            cursor -= 1;\n", "            cursor -= 0;\n"))
mut("a-c02-fused-without-meeting", "C02", "C02.R9", (RM, "if start_cursor > end_cursor || marker.end >= end_marker.start {", "if start_cursor >= end_cursor || marker.end >= end_marker.start {"))
mut("a-c13-indent-acts-off-line-end", "C13", "C13.R8", (IR, "|| bytes[cursor] != b'\\n' {", "&& bytes[cursor] != b'\\n' {"))
mut("a-c07-last-token-dropped", "C07", "C07.R7", (TK, "        tokens.push(token);\n", ""))
mut("a-c07-merge-any-neighbour", "C07", "C07.R7", (TK, "if last_token.kind == TokenKind::Text && cur.kind == TokenKind::Text {", "if last_token.kind == TokenKind::Text || cur.kind == TokenKind::Text {"))
mut("a-c07-merge-push-inverted", "C07", "C07.R7", (TK, "        if !merged {", "        if merged {"))
mut("a-c07-first-token-dropped", "C07", "C07.R7", (TK, "                None => false,\n            }\n        };", "                None => true,\n            }\n        };"))
mut("a-c12-walk-past-the-end", "C12", "C12.R6", (BI, "        while end_byte_pos > current_pos {", "        while end_byte_pos >= current_pos {"))
mut("a-c12-walk-pauses", "C12", "C12.R6", (BI, "find_next_line_break_pos(content, bytes, current_pos, false).map(|v| v + 1);", "find_next_line_break_pos(content, bytes, current_pos, true).map(|v| v + 1);"))
mut("a-c12-only-empty-ranges", "C12", "C12.R6", (BI, "                        if start != end {", "                        if start == end {"))
mut("a-c12-last-line-left-out", "C12", "C12.R6", (BI, "                    if pos > end_byte_pos {", "                    if pos >= end_byte_pos {"))
mut("a-c16-text-starts-at-region", "C16", "C16.R9", (LS, "    removed.push_str(&content[line_start..color_start]);\n", ""))
mut("a-c16-text-ends-at-region", "C16", "C16.R9", (LS, "    removed.push_str(&content[color_end..line_end]);\n", ""))
mut("a-c16-no-closing-line-break", "C16", "C16.R9", (LS, "    removed.push('\\n');\n", ""))
mut("a-c16-only-last-line-numbered", "C16", "C16.R9", (LS, "&(line_range.0..=line_range.1)", "&(line_range.1..=line_range.1)"))
mut("a-c16-first-line-of-range-end", "C16", "C16.R9", (LS, "        find_line(line_map, range.start),", "        find_line(line_map, range.end),"))
mut("a-c16-line-start-pausing", "C16", "C16.R9", (LS, "let line_start = find_prev_line_break_pos(content, bytes, start, false)", "let line_start = find_prev_line_break_pos(content, bytes, start, true)"))
mut("a-c02-insertion-by-end", "C02", "C02.R3c", (FM, "if range.start < new_range.start {", "if range.end < new_range.start {"))
mut("a-c02-insertion-one-too-far", "C02", "C02.R3c", (FM, "None => ranges.insert(0, new_range),", "None => ranges.insert(1, new_range),"))
mut("a-c01-scanner-never-moves", "C01", "C01.T", (CP, "        cursor += 1;\n", ""))
mut("a-c07-one-byte-piece-dropped", "C07", "C07.R8", (TK, "if (byte_pos - byte_start_pos) > 0 {", "if (byte_pos - byte_start_pos) > 1 {"))
mut("a-c07-token-inserted-in-front", "C07", "C07.R8", (TK, "                    tokens.push(Token {", "                    tokens.insert(0, Token {"))
mut("a-c12-walk-beyond-the-block", "C12", "C12.R6", (BI, "                    if pos > end_byte_pos {\n                        break;\n                    }\n", ""))
mut("a-c16-tab-counter-inverted", "C16", "C16.R6b", (BC, ".fold(0, |acc, v| if v == '\\t' { acc + 1 } else { acc })", ".fold(0, |acc, v| if v != '\\t' { acc + 1 } else { acc })"))
mut("a-c16-line-not-put-back", "C16", "C16.R9", (LS, "                str.push_str(l);\n", ""))
# third operator set of the audit: traversals shortened by an adaptor
mut("a3-c09-only-first-attribute", "C09", "C09.R1", (EP, "                    .iter()\n                    .map(|(name, value)| Attribute {", "                    .iter().take(1)\n                    .map(|(name, value)| Attribute {"))
mut("a3-c03-first-tree-skipped", "C03", "C03.R8", (RM, "        ranges.into_iter().fold(vec![], |mut acc, tree| {", "        ranges.into_iter().skip(1).fold(vec![], |mut acc, tree| {"))
mut("a3-c12-first-kept-child-dropped", "C12", "C12.R4", (RM, "acc.extend(child_markers[start_cursor..end_cursor].iter().map(", "acc.extend(child_markers[start_cursor..end_cursor].iter().skip(1).map("))
mut("a3-c17-tail-skips-one", "C17", "C17.R2", (RM, "                ranges_pending[range_cursor..ranges_pending.len()]\n                    .iter()\n", "                ranges_pending[range_cursor..ranges_pending.len()]\n                    .iter().skip(1)\n"))
mut("a3-c16-first-highlighted-line-lost", "C16", "C16.R9", (LS, "            .lines()\n            .map(|l| {", "            .lines().skip(1)\n            .map(|l| {"))
mut("a3-c16-pretty-skips-first-item", "C16", "C16.R2", (LS, "    let mut output: String = markers\n        .iter()\n", "    let mut output: String = markers\n        .iter().skip(1)\n"))
mut("a3-c12-no-block-formatter-asked", "C12", "C12.R7", (FM, "let ranges = structure_formatters.iter().fold(vec![], |mut v, f| {", "let ranges = structure_formatters.iter().skip(1).fold(vec![], |mut v, f| {"))
mut("a3-c12-new-ranges-never-merged", "C12", "C12.R7", (FM, "    while !new_ranges.is_empty() {", "    while !new_ranges.len() == 1 {"))
# operator set 4 of the audit: a guard block removed as a whole
mut("a4-c02-search-never-stops", "C02", "C02.R3c", (FM, "                        if range.start < new_range.start {\n                            break Some(cursor);\n                        }\n", ""))
mut("a4-c13-found-not-returned", "C13", "C13.R9", (IR, "        if found {\n            return (cursor, byte_pos);\n        }\n", ""))
# operator set 5 of the audit: two similar variables exchanged
mut("a5-c12-dedent-starts-at-shift", "C12", "C12.R6", (BI, "let start = std::cmp::min(current_pos + indent_ofs, indent_pos);", "let start = std::cmp::min(current_pos + indent_len, indent_pos);"))
mut("a5-c12-guard-compares-end-with-itself", "C12", "C12.R6", (BI, "                        if start != end {", "                        if end != end {"))
mut("a5-c16-highlight-ends-at-start", "C16", "C16.R9", (LS, "let color_end = end.min(line_end);", "let color_end = start.min(line_end);"))
mut("a5-c16-start-padding-from-end-line", "C16", "C16.R8", (LS, "result.push_str(&TABSPACE.to_string().repeat(marker_start_tab_len));", "result.push_str(&TABSPACE.to_string().repeat(marker_end_tab_len));"))
mut("a5-c17-ready-range-listed-as-pending", "C17", "C17.R4", (RM, "merged_ranges.push(((pending_range.clone(), *pending_idx), false));", "merged_ranges.push(((range.clone(), *pending_idx), false));"))
mut("a5-c02-tail-absorbs-into-head", "C02", "C02.R9", (RM, "- Self::merge_child_markers(child_markers.iter().rev(), &mut end_marker);", "- Self::merge_child_markers(child_markers.iter().rev(), &mut marker);"))
mut("a-c17-cursor-starts-at-1", "C17", "C17.R4", (RM, "        let mut range_cursor = 0;", "        let mut range_cursor = 1;"))
mut("a-c17-touching-pending-first", "C17", "C17.R4", (RM, "                if pending_range.start >= range.end {", "                if pending_range.start > range.end {"))
mut("a-c17-inside-left-for-later", "C17", "C17.R4", (RM, "                if pending_range.start >= range.end {", "                if pending_range.start >= range.start {"))
mut("c13-scanner-tab-not-blank", "C13", "C13.R7", (LB, "        Some(b'\\t') => CheckResult::Skip,\n        Some(b'\\n') => CheckResult::Found,", "        Some(b'\\n') => CheckResult::Found,"))
mut("c13-scanner-nonpausing-stops", "C13", "C13.R7", (LB, "            CheckResult::None => {\n                if pause_on_char {\n                    break None;\n                }\n            }\n        }\n\n        cursor += 1;", "            CheckResult::None => {\n                break None;\n            }\n        }\n\n        cursor += 1;"))
mut("c12-char-finder-gives-up-on-tab", "C12", "C12.D:C13.R7", (CP, "        Some(b'\\t') => CheckResult::Skip,\n", "        Some(b'\\t') => CheckResult::None,\n"))
mut("c11-nonpausing-scan-stops-c11", "C11", "C11.D:C13.R7", (LB, "            CheckResult::None => {\n                if pause_on_char {\n                    break None;\n                }\n            }\n        }\n\n        cursor += 1;", "            CheckResult::None => {\n                break None;\n            }\n        }\n\n        cursor += 1;"))
mut("c13-indent-line-break-included", "C13", "C13.R6", (IR, "                    Some(b'\\n') => {\n                        cursor += 1;\n                        break true;", "                    Some(b'\\n') => {\n                        break true;"))
mut("c02-indent-begins-two-behind", "C02", "C02.R4", (IR, "                    Some(b'\\n') => {\n                        cursor += 1;\n                        break true;", "                    Some(b'\\n') => {\n                        cursor -= 1;\n                        break true;"))
mut("c16-frame-start-marker-dropped", "C16", "C16.R8", (LS, "    result.push_str(MARKER_START);\n", ""))
mut("c16-frame-markers-swapped", "C16", "C16.R8", (LS, "    result.push_str(MARKER_START);\n", "    result.push_str(MARKER_END);\n"), (LS, "    result.push_str(MARKER_END);\n    result.push_str(reset_color);\n\n    result", "    result.push_str(MARKER_START);\n    result.push_str(reset_color);\n\n    result"))
mut("c16-frame-no-break-after-start", "C16", "C16.R8", (LS, "    result.push_str(reset_color);\n    result.push('\\n');\n", "    result.push_str(reset_color);\n"))
mut("c16-frame-end-marker-conditional", "C16", "C16.R8", (LS, "    result.push_str(MARKER_END);\n", "    if coloring || line_number_ofs > 0 {\n        result.push_str(MARKER_END);\n    }\n"))
mut("c16-frame-glyph-renamed", "C16", "C16.R8", (LS, 'const MARKER_END: &str = "‾end";', 'const MARKER_END: &str = "^end";'))
mut("c17-squash-by-start-only", "C17", "C17.R4", (RM, "                let can_squash =\n                    range.contains(&pending_range.start) && pending_range.end <= range.end;", "                let can_squash = range.contains(&pending_range.start);"))
mut("c17-marker-evaluator-conditional", "C17", "C17.R5", (CH, "    builder_map.insert(\n        config.removal_marker_configuration.tag_name,", "    if !config.removal_marker_configuration.targets.is_empty() {\n    builder_map.insert(\n        config.removal_marker_configuration.tag_name.clone(),"), (CH, "                marker_removal_names: config.removal_marker_configuration.targets,\n            },\n        ),\n    );", "                marker_removal_names: config.removal_marker_configuration.targets,\n            },\n        ),\n    );\n    }"))
mut("c14-output-normalised", "C14", "C14.R6", (CH, "    formatter::format(&removed, &removed_pos, &formatter, &structure_formatters)\n}", "    formatter::format(&removed, &removed_pos, &formatter, &structure_formatters).replace(\"\\r\\n\", \"\\n\")\n}"))
mut("c18-name-char-class", "C18", "C18.R8", (EP, "                                _ => {\n                                    state = State::Name(pos);\n                                }\n                            },\n                            State::Name(start)", "                                c if !c.is_ascii_alphabetic() && c != '/' => state = State::ParseError,\n                                _ => {\n                                    state = State::Name(pos);\n                                }\n                            },\n                            State::Name(start)"))
mut("c10-descent-skipped", "C10", "C10.R3", (PA, "                    let mut next_parent_elements = parent_elements.clone();", "                    if parent_elements.len() >= 64 {\n                        return State::Content(vec![ContentPart::Text(Text { token: t })]);\n                    }\n                    let mut next_parent_elements = parent_elements.clone();"))
mut("c12-amount-from-later-line", "C12", "C12.R2b", (BI, "let first_indent_len = get_indent_len(content, current_pos);", "let first_indent_len = get_indent_len(content, end_byte_pos.min(current_pos + 1));"))
mut("c02-hull-merge", "C02", "C02.R3b", (FM, "            ranges[write_cursor].end = ranges[write_cursor].end.max(ranges[read_cursor].end)", "            ranges[write_cursor].start = ranges[write_cursor].start.min(ranges[read_cursor].start);\n            ranges[write_cursor].end = ranges[write_cursor].end.max(ranges[read_cursor].end)"))
mut("c03-absorb-without-widening-start", "C03", "C03.R7", (RM, "                marker.start = marker.start.min(child_marker.start);\n", ""))
mut("c02-child-end-test-dropped", "C02", "C02.R8", (RM, "if marker.contains(&child_marker.start) || marker.contains(&child_marker.end) {", "if marker.contains(&child_marker.start) {"))
mut("c07-fresh-start-without-boundary", "C07", "C07.R5", (TK, "get_state(c, delimiter_start, delimiter_end, State::Text)", "(None, check_delimiter_start(c, delimiter_start))"))

# ---------------------------------------------------------------- benign variants (every rule silent)
benign("b-c05-single-expression", (TL, "if self.current_time < expires.unwrap() {\n            return false;\n        }\n\n        true", "self.current_time >= expires.unwrap()"))
benign("b-c05-format-shorthand", (TL, 'parse_from_str(&expires_str, "%Y-%m-%d %H:%M:%S %z")', 'parse_from_str(&expires_str, "%F %T %z")'))
benign("b-c05-commuted-compare", (TL, "self.current_time < expires.unwrap()", "expires.unwrap() > self.current_time"))
benign("b-c06-match-instead-of-iflet", (MK, "if let Some(name_attr_value) = name_attr_value {\n            self.marker_removal_names.contains(name_attr_value)\n        } else {\n            false\n        }",
                                     "match name_attr_value {\n            Some(v) => self.marker_removal_names.contains(v),\n            None => false,\n        }"))
benign("b-keyword-compare-commuted", (TL, 'a.name == "to"', '"to" == a.name'), (RM, 'v.name == "skip"', '"skip" == v.name'))
benign("b-remover-negated-skip", (RM, "let range = if is_skip(&el.start_element) {\n                        None\n                    } else {", "let range = if !(!is_skip(&el.start_element)) {\n                        None\n                    } else {"))
benign("b-unused-helper-and-comments", (RM, "fn is_skip(el: &Element) -> bool {", "// helper kept for later\n#[allow(dead_code)]\nfn never_called(x: usize) -> usize {\n    x\n}\n\nfn is_skip(el: &Element) -> bool {"))
benign("b-unwrap-guard-ge-commuted", (UB, "if start >= end {", "if end <= start {"))

benign("b-finder-commuted-bounds", (LB, "if cursor >= bytes.len() || cursor == 0 {", "if bytes.len() <= cursor || 0 == cursor {"))
benign("b-empty-line-negated-eq", (EL, "if bytes.get(byte_pos) != Some(&b'\\n') {", "if !(bytes.get(byte_pos) == Some(&b'\\n')) {"))
benign("b-unwrap-tail-start-match", (UB, "let tail_start = if start == end { start } else { start + 1 };", "let tail_start = match start == end {\n                        true => start,\n                        false => start + 1,\n                    };"))
benign("b-format-let-introduced", (FM, "        let range = format_block(content, *pos, formatters);\n        ranges.push(range);", "        let p = *pos;\n        let range = format_block(content, p, formatters);\n        ranges.push(range);"))

benign("b-tokenizer-redispatch-inlined", (TK, "get_state(c, delimiter_start, delimiter_end, State::Text)", "match check_delimiter_start(c, delimiter_start) {\n                            State::DelimiterStart(chars) => (Some(TokenKind::Text), State::DelimiterStart(chars)),\n                            _ => (None, State::Text),\n                        }"))

benign("b-parser-if-chain", (EP, "State::ValueWithNoQuote => {\n                                if matches!(current_char, ' ' | '\\n' | '\\r') {\n                                    state = State::NameBegin\n                                }\n                            }", "State::ValueWithNoQuote => match current_char {\n                                ' ' | '\\n' | '\\r' => state = State::NameBegin,\n                                _ => {}\n                            },"))

benign("b-cli-match-instead-of-iflet", (CLI, "    if let Some(filename) = args.output {\n        let mut f = File::create(filename).expect(\"file not found\");\n        f.write_all(output.as_bytes())\n            .expect(\"something went wrong writing the file\");\n    } else {\n        print!(\"{}\", output);\n    }", "    match args.output {\n        Some(filename) => {\n            let mut f = File::create(filename).expect(\"file not found\");\n            f.write_all(output.as_bytes())\n                .expect(\"something went wrong writing the file\");\n        }\n        None => print!(\"{}\", output),\n    }"))
benign("b-cli-format-if", (CLI, "    match list_json {\n        true => ListFormat::JSON,\n        false => ListFormat::PrettyString,\n    }", "    if list_json {\n        ListFormat::JSON\n    } else {\n        ListFormat::PrettyString\n    }"))

benign("b-c01-len-eq-zero", (FM, "    if ranges.is_empty() {\n        return;\n    }\n\n    let mut cursor", "    if ranges.len() == 0 {\n        return;\n    }\n\n    let mut cursor"))
benign("b-c01-let-else", (PA, "        if t.is_none() {\n            break (cursor, None);\n        }\n\n        let t: &tokenizer::Token<'a, 'b, 'c> = t.unwrap();", "        let Some(t) = t else {\n            break (cursor, None);\n        };"))
benign("b-c01-guard-commuted", (RM, "if start_cursor > end_cursor || marker.end >= end_marker.start {", "if end_cursor < start_cursor || end_marker.start <= marker.end {"))
benign("b-c01-indent-guard-commuted", (IR, "            if cursor == 0 {\n                break false;\n            }", "            if 0 == cursor {\n                break false;\n            }"))
benign("b-c01-functions-reordered", (LB, "#[derive(Debug)]\nenum CheckResult {\n    Skip,\n    Found,\n    None,\n}\n\nfn check(", "// moved below\n#[derive(Debug)]\nenum CheckResult {\n    Skip,\n    Found,\n    None,\n}\n\n#[inline]\nfn check("))
benign("b-c12-rebase-guard-commuted", (RM, "Some(p) if start_cursor <= *p && *p < end_cursor => {", "Some(p) if *p >= start_cursor && end_cursor > *p => {"))
benign("b-c17-loop-form", (RM, "                if pending_range.start >= range.end {\n                    break;\n                }", "                if range.end <= pending_range.start {\n                    break;\n                }"))

benign("b-indent-start-of-file-accepted", (IR, "            if cursor == 0 {\n                break false;\n            }", "            if cursor == 0 {\n                break true;\n            }"))

benign("b-parser-fold-to-for",
       (EP, "                let (mut pairs, last_state) = target.char_indices().fold(\n                    (vec![], State::NameBegin),\n                    |(mut pairs, mut state), (pos, current_char)| {\n", "                let mut pairs = vec![];\n                let mut state = State::NameBegin;\n                for (pos, current_char) in target.char_indices() {\n                    {\n"),
       (EP, "                        (pairs, state)\n                    },\n                );\n", "                    }\n                }\n                let last_state = state;\n"))

# ---------------------------------------------------------------- behaviour-preserving refactorings by independent sub-agents
# (/verif/refactors/<id>/patch.diff, DESIGN.md section 11): each must leave every check silent ...
RF = os.path.join(os.path.dirname(os.path.dirname(os.path.abspath(__file__))), "refactors")
for d in sorted(os.listdir(RF)):
    if os.path.exists(os.path.join(RF, d, "patch.diff")):
        mp = os.path.join(RF, d, "meta.json")
        if os.path.exists(mp) and json.load(open(mp)).get("known_limit"):
            continue          # representation changes the extractors do not follow (DESIGN.md section 11.3): reported, known
        C.append({"id": "rf-" + d, "kind": "benign", "patch": "refactors/%s/patch.diff" % d, "edits": []})


# ... and a defect seeded into the *refactored* form must still be reported (the widened idiom recognition is not vacuous)
def rmut(id, rf, prop, expect, *edits):
    C.append({"id": id, "kind": "mutant", "property": prop, "expect": expect, "patch": "refactors/%s/patch.diff" % rf,
              "edits": [dict(file=f, find=a, replace=b) for f, a, b in edits]})


rmut("rf-lst-3+prev-skips-byte0", "lst-3", "C12", "C12.R3", (LB, "for cursor in (0..byte_pos).rev()", "for cursor in (1..byte_pos).rev()"))
rmut("rf-lst-3+prev-skips-byte0-c16", "lst-3", "C16", "C16.R3", (LB, "for cursor in (0..byte_pos).rev()", "for cursor in (1..byte_pos).rev()"))
rmut("rf-lst-3+no-pause", "lst-3", "C02", "C02.R4", (LB, "    for cursor in byte_pos..bytes.len() {\n        match check(content, bytes, &cursor) {\n            CheckResult::Found => return Some(cursor),\n            CheckResult::None if pause_on_char => return None,\n", "    for cursor in byte_pos..bytes.len() {\n        match check(content, bytes, &cursor) {\n            CheckResult::Found => return Some(cursor),\n"))
rmut("rf-fmt-3+insert-off-by-one", "fmt-3", "C01", "C01.OB", (FM, ".map_or(0, |idx| idx + 1);", ".map_or(0, |idx| idx + 2);"))
rmut("rf-fmt-4+end-unclamped", "fmt-4", "C02", "C02.R6b", (BI, "let end = std::cmp::min(start + indent_len, indent_end);", "let end = start + indent_len;"))
rmut("rf-fmt-4+first-line-plus-two", "fmt-4", "C02", "C02.R6b", (BI, "let first_line_pos = start_byte_pos + 1;", "let first_line_pos = start_byte_pos + 2;"))
rmut("rf-rem-4+squash-start-only", "rem-4", "C17", "C17.R4", (RM, "range.contains(&pending_range.start) && pending_range.end <= range.end;", "range.contains(&pending_range.start);"))
rmut("rf-rem-4+tail-dropped", "rem-4", "C17", "C17.R2", (RM, "        merged_ranges.extend(pending_markers.map(|pending| (pending, false)));\n", ""))
rmut("rf-rem-4+tail-skips-one", "rem-4", "C17", "C17.R2", (RM, "merged_ranges.extend(pending_markers.map(|pending| (pending, false)));", "merged_ranges.extend(pending_markers.skip(1).map(|pending| (pending, false)));"))
rmut("rf-rem-4+single-advance", "rem-4", "C17", "C17.R2", (RM, "while let Some(pending) =", "if let Some(pending) ="))
rmut("rf-rem-1+update-before-push", "rem-1", "C01", "C01.OB", (RM, "        positions.push((marker.start - removed_len, *pair_pos));\n        removed_len += marker.end - marker.start;\n", "        removed_len += marker.end - marker.start;\n        positions.push((marker.start - removed_len, *pair_pos));\n"))
rmut("rf-rem-3+pending-when-not-collecting", "rem-3", "C17", "C17.R1", (RM, "if !is_removal && !collect_pending_removals {", "if !is_removal && collect_pending_removals {"))
rmut("rf-rem-3+skip-ignored", "rem-3", "C03", "C03.R1-3", (RM, "        if is_skip(&el.start_element) {\n            return None;\n        }\n\n        let evaluator", "        let evaluator"))
rmut("rf-rem-3+empty-kept", "rem-3", "C04", "C04.R1", (RM, "            .filter(|(range, _)| !range.is_empty())\n", ""))
rmut("rf-lst-4+colour-pads", "lst-4", "C16", "C16.R2", (LS, "    out.push_str(color);\n", "    out.push_str(&color.repeat(space_len));\n"))
rmut("rf-eva-2+strict", "eva-2", "C05", "C05.R1", (TL, "Ok(expires) => self.current_time >= expires,", "Ok(expires) => self.current_time > expires,"))
rmut("rf-eva-2+offset-dropped", "eva-2", "C05", "C05.R2", (TL, 'let expires_str = format!("{} {}", expires_value, self.time_offset);', 'let expires_str = format!("{} +00:00", expires_value);'))
rmut("rf-cli-3+create-before-read", "cli-3", "C20", "C20.R", (CLI, "    let content = read_input(args.filename);\n", "    let _early = args.output.as_ref().map(|f| File::create(f).expect(\"Failed to create file\"));\n    let content = read_input(args.filename);\n"))
rmut("rf-cli-4+println", "cli-4", "C20", "C20.R4", (CLI, 'None => print!("{}", output),', 'None => println!("{}", output),'))

rmut("rf-tok-3+unit-mix", "tok-3", "C07", "C07.R3", (TK, "                    start: start_pos,\n                    byte_start: byte_start_pos,\n                    end: current,\n                    byte_end: byte_pos,", "                    start: byte_start_pos,\n                    byte_start: byte_start_pos,\n                    end: current,\n                    byte_end: byte_pos,"))
rmut("rf-tok-3+counter-by-two", "tok-3", "C07", "C07.R", (TK, "        current += 1;\n", "        current += 2;\n"))
rmut("rf-tok-3+byte-start-plus-one", "tok-3", "C01", "C01.OB", (TK, "            byte_start_pos = byte_pos;\n", "            byte_start_pos = byte_pos + 1;\n"))
rmut("rf-tok-3+state-not-reset", "tok-3", "C08", "C08.R", (TK, "    let mut state = State::Text;", "    let mut state = State::InDelimiter;"))
rmut("rf-tok-1+final-end-off", "tok-1", "C07", "C07.R", (TK, "            end: current,\n            byte_end: source.len(),", "            end: current,\n            byte_end: source.len() - 1,"))
rmut("rf-par-4+closing-by-prefix", "par-4", "C10", "C10.R", (PA, ".any(|parent_el| parent_el.name == pair_name)", ".any(|parent_el| parent_el.name.starts_with(pair_name))"))
rmut("rf-par-4+mismatch-accepted", "par-4", "C10", "C10.R", (PA, "Some((end_token, end_el)) if el.name == end_el.name.strip_prefix(\"/\").unwrap_or(end_el.name) => {", "Some((end_token, end_el)) if el.name.len() == end_el.name.strip_prefix(\"/\").unwrap_or(end_el.name).len() => {"))

# round 2 of the refactorings
rmut("rf-fmt-r2-2+found-off-by-one", "fmt-r2-2", "C13", "C13.R6", (IR, "b'\\n' => return (cursor + 1, byte_pos),", "b'\\n' => return (cursor, byte_pos),"))
rmut("rf-fmt-r2-2+skips-anything", "fmt-r2-2", "C02", "C02.R", (IR, "                _ => break,\n", "                _ => {}\n"))
rmut("rf-fmt-r2-4+merges-neighbours", "fmt-r2-4", "C02", "C02.R3b", (FM, "Some(last) if last.end >= range.start =>", "Some(last) if last.end + 1 >= range.start =>"))
rmut("rf-lst-r2-3+found-plus-one", "lst-r2-3", "C01", "C01.S", (LB, "CheckResult::Found => ControlFlow::Break(Some(cursor)),", "CheckResult::Found => ControlFlow::Break(Some(cursor + 1)),"))
rmut("rf-lst-r2-3+never-pauses", "lst-r2-3", "C02", "C02.R4", (LB, "            if pause_on_char {\n                ControlFlow::Break(None)\n            } else {\n                ControlFlow::Continue(())\n            }", "            ControlFlow::Continue(())"))
rmut("rf-rem-r2-2+rebase-dropped", "rem-r2-2", "C12", "C12.R4", (RM, ".map(|p| p - start_cursor + current + 1);", ".map(|p| p + current + 1);"))
rmut("rf-rem-r2-2+lower-guard-dropped", "rem-r2-2", "C01", "C01.OB", (RM, ".filter(|p| start_cursor <= *p && *p < end_cursor)", ".filter(|p| *p < end_cursor)"))
rmut("rf-rem-r2-3+rebase-in-helper", "rem-r2-3", "C12", "C12.R4", (RM, "Some(p - kept.start + offset)", "Some(p + offset)"))
rmut("rf-rem-r2-3+forward-cut", "rem-r2-3", "C02", "C02.R2", (RM, "for (marker, _) in markers.iter().rev() {", "for (marker, _) in markers.iter() {"))
rmut("rf-eva-r2-2+valueless-ready", "eva-r2-2", "C06", "C06.R1", (MK, "                None => false,", "                None => true,"))
rmut("rf-eva-r2-2+prefix-attr", "eva-r2-2", "C06", "C06.R", (MK, 'if attr.name != "name" {', 'if !attr.name.starts_with("name") {'))
rmut("rf-cli-r2-2+skips-first-line", "cli-r2-2", "C20", "C20.R2", (CLI, "    for line in reader.lines() {", "    for line in reader.lines().skip(1) {"))
rmut("rf-cli-r2-4+flag-names-dropped", "cli-r2-4", "C20", "C20.R2", (CLI, "    marker_removal_tags.extend(args.removal_marker_target_name);\n", ""))
rmut("rf-par-r2-2+eof-keeps-looping", "par-r2-2", "C10", "C10.R", (PA, "            State::Closed((t, el)) => return (cursor, Some((t, el))),", "            State::Closed((t, el)) => { let _ = (t, el); }"))
rmut("rf-tok-r2-1+renamed-counter-by-two", "tok-r2-1", "C07", "C07.R", (TK, "                char_pos + 1,", "                char_pos + 2,"))
rmut("rf-lst-r2-1+renamed-scanner-steps-two", "lst-r2-1", "C02", "C02.R4", (LB, "        pos -= 1;\n", "        pos -= 2;\n"))

# round 3 of the refactorings (inline helper / reorder / move / alternative spelling) and the additive changes
rmut("rf-rem-r3-1+inline-skip-by-value", "rem-r3-1", "C06", "C06.R", (RM, 'el.start_element.attrs.iter().any(|v| v.name == "skip")', 'el.start_element.attrs.iter().any(|v| v.name == "skip" && v.value.is_none())'))
rmut("rf-eva-r3-1+indent-remover-dropped", "eva-r3-1", "C13", "C13.R1", (CH, "        Box::new(formatter::indent_remover::IndentRemover {}),\n", ""))
rmut("rf-lst-r3-1+newline-skipped", "lst-r3-1", "C02", "C02.R4", (CP, "                Some(b'\\t') => {}", "                Some(b'\\t') | Some(b'\\n') => {}"))
rmut("rf-lst-r3-4+find-line-strict", "lst-r3-4", "C16", "C16.R7", (LM, "line_map.iter().take_while(|v| **v < needle).count() + 1", "line_map.iter().take_while(|v| **v <= needle).count() + 1"))
rmut("rf-cli-r3-4+stops-after-first", "cli-r3-4", "C20", "C20.R2", (CLI, "        .take_while(Result::is_ok)", "        .take(1)\n        .take_while(Result::is_ok)"))
rmut("rf-fmt-r3-1+hull-shrinks", "fmt-r3-1", "C13", "C13.R1", (FM, "            let start = start.min(range.start);", "            let start = start.max(range.start);"))
rmut("rf-cli-r3-1+inline-reader-skips", "cli-r3-1", "C20", "C20.R2", (CLI, "reader.lines().map_while(Result::ok).collect::<Vec<_>>()", "reader.lines().skip(1).map_while(Result::ok).collect::<Vec<_>>()"))
rmut("rf-add-cli-2+stats-on-stdout", "add-cli-2", "C20", "C20.R4", (CLI, "        eprintln!(", "        println!("))

# the multi-respelling refactorings that became followable (find_map/then, scan, skip; split_first, append; starts_with, for-deletion)
rmut("rf-rem-r3-4+scan-forgets-length", "rem-r3-4", "C14", "C14.R8", (RM, "            *removed_len += marker.end - marker.start;\n", ""))
rmut("rf-rem-r3-4+tail-always-plus-one", "rem-r3-4", "C11", "C11.R", (UB, "let tail_start = start + usize::from(start != end);", "let tail_start = start + usize::from(start == end);"))
rmut("rf-par-r3-4+closer-any-prefix", "par-r3-4", "C10", "C10.R", (PA, 'let pair_name = rest;', 'let pair_name = rest.trim_start_matches("x");'))
rmut("rf-fmt-r3-4+forward-deletion", "fmt-r3-4", "C02", "C02.R2", (FM, "for range in ranges.into_iter().rev() {", "for range in ranges.into_iter() {"))
rmut("rf-fmt-r3-4+seam-inverted", "fmt-r3-4", "C13", "C13.R3", (EL, "if !content[byte_pos..].starts_with('\\n') {", "if content[byte_pos..].starts_with('\\n') {"))

# a tuple given a name (sa/destruct.py): defects in the struct spelling are still reported
rmut("rf-rem-r2-4+struct-drops-ready-children", "rem-r2-4", "C03", "C03.R", (RM, "                        collected.removal.extend(nested.removal);\n                        collected.pending.push(RemovalRangeTree {", "                        collected.pending.push(RemovalRangeTree {"))
rmut("rf-tok-r2-4+struct-counter-by-two", "tok-r2-4", "C07", "C07.R", (TK, "            scan.current += 1;", "            scan.current += 2;"))
rmut("rf-tok-r2-4+struct-start-not-reset", "tok-r2-4", "C07", "C07.R", (TK, "                scan.start_pos = scan.current;\n", ""))
rmut("rf-lst-r2-4+no-color-constant-colours", "lst-r2-4", "C16", "C16.R2", (LS, '    highlight: "",\n', '    highlight: "*",\n'))

# round 5 (ordinary maintenance commits): defects in the tidied forms are still reported
rmut("rf-blk-r5-3+byte-map-records-cr", "blk-r5-3", "C16", "C16.R7", (LM, ".filter(|&(_, b)| b == b'\\n')", ".filter(|&(_, b)| b == b'\\r')"))
rmut("rf-lst-r5-2+named-last-pos-off-by-one", "lst-r5-2", "C16", "C16.R", (LS, "    let last_pos = end - 1;", "    let last_pos = end;"))
rmut("rf-rem-r5-2+named-position-unshifted", "rem-r5-2", "C14", "C14.R8", (RM, "let start_after_removal = marker.start - removed_len;", "let start_after_removal = marker.start;"))
rmut("rf-rem-r5-3+range-one-longer", "rem-r5-3", "C15", "C15.R1", (RM, "new_content.replace_range(marker.start..marker.end, \"\");", "new_content.replace_range(marker.start..marker.end + 1, \"\");"))
rmut("rf-cli-r5-1+lazy-default-is-epoch", "cli-r5-1", "C20", "C20.R1", (CLI, ".unwrap_or_else(|_| chrono::Local::now())", ".unwrap_or_else(|_| chrono::DateTime::<chrono::Local>::default())"))

# round 6 (second round of maintenance commits)
rmut("rf-fmt-r6-1+insert-one-too-far", "fmt-r6-1", "C01", "C01.OB", (FM, "let insert_at = cursor.map_or(0, |cursor| cursor + 1);", "let insert_at = cursor.map_or(0, |cursor| cursor + 2);"))
rmut("rf-blk-r6-4+helper-does-not-clamp-end", "blk-r6-4", "C14", "C14.R4", (BI, "    let end = std::cmp::min(start + len, limit);\n\n    if start != end {", "    let end = start + len;\n\n    if start != end {"))
rmut("rf-ep-r6-3+first-pair-skipped", "ep-r6-3", "C09", "C09.R1", (EP, "let (name, _) = pairs.next()?;", "pairs.next()?;\n            let (name, _) = pairs.next()?;"))
rmut("rf-par-r6-3+lazy-default-drops-token", "par-r6-3", "C10", "C10.R1", (PA, "|| State::Content(vec![ContentPart::Text(Text { token: t })])", "|| State::Content(vec![])"))

# round 7 (combined maintenance commits)
rmut("rf-rem-r7-3+named-head-index-off-by-one", "rem-r7-3", "C12", "C12.R4", (RM, "let end_marker_pos = current + spliced.len() + 1;", "let end_marker_pos = current + spliced.len();"))
rmut("rf-tokpar-r7-2+named-guard-inverted", "tokpar-r7-2", "C07", "C07.R6", (TK, "if !is_empty_token {", "if is_empty_token {"))
rmut("rf-fmt-r7-2+helper-returns-line-break-itself", "fmt-r7-2", "C02", "C02.R", (IR, "LINE_BREAK => return Some(cursor + 1),", "LINE_BREAK => return Some(cursor.saturating_sub(1)),"))
rmut("rf-rem-r7-2+while-let-skips-squash-end", "rem-r7-2", "C17", "C17.R4", (RM, "pending_range.end <= range.end", "pending_range.end < range.end"))
# round 8 (holdout) forms
rmut("rf-rem-r8-1+early-return-drops-ready", "rem-r8-1", "C03", "C03.R1-3", (RM, "                let parser::ContentPart::Element(el) = c else {\n                    return (removal_tree, pending_removal_tree);\n                };", "                let parser::ContentPart::Element(el) = c else {\n                    return (vec![], pending_removal_tree);\n                };"))
rmut("rf-rem-r8-1+filter-inverted", "rem-r8-1", "C04", "C04.R1", (RM, ".filter(|((range, _), _)| !range.is_empty())", ".filter(|((range, _), _)| range.is_empty())"))
rmut("rf-rem-r8-1+pending-as-ready", "rem-r8-1", "C17", "C17.R1", (RM, "create(el, &self.remove_strategies).map(|f| (f, is_removal))", "create(el, &self.remove_strategies).map(|f| (f, true))"))
rmut("rf-rem-r8-2+tail-skips-one-more", "rem-r8-2", "C17", "C17.R2", (RM, "                .skip(range_cursor)\n", "                .skip(range_cursor + 1)\n"))
rmut("rf-rem-r8-2+tail-of-ready-list", "rem-r8-2", "C17", "C17.R2", (RM, "            ranges_pending\n                .into_iter()\n                .skip(range_cursor)\n                .map(|pending| (pending, false)),", "            ranges_pending\n                .into_iter()\n                .skip(range_cursor)\n                .step_by(2)\n                .map(|pending| (pending, false)),"))
rmut("rf-rem-r8-3+window-inclusive", "rem-r8-3", "C12", "C12.R4", (RM, "pair.filter(|p| kept.contains(p))", "pair.filter(|p| (kept.start..=kept.end).contains(p))"))
rmut("rf-rem-r8-3+rebase-dropped", "rem-r8-3", "C12", "C12.R4", (RM, ".map(|p| p - kept.start + new_start)", ".map(|p| p + new_start)"))
rmut("rf-rem-r8-3+head-index-off", "rem-r8-3", "C12", "C12.R4", (RM, "acc.push((marker, Some(current + kept.len() + 1)));", "acc.push((marker, Some(current + kept.len())));"))
rmut("rf-rem-r8-3+window-is-a-marker", "rem-r8-3", "C01", "C01.", (RM, "acc.push((end_marker, Some(current)));", "acc.push((kept.clone(), Some(current)));"))
rmut("rf-par-r8-2+prefix-trimmed-repeatedly", "par-r8-2", "C10", "C10.R", (PA, "    name.strip_prefix(CLOSING_PREFIX).unwrap_or(name)\n", "    name.trim_start_matches(CLOSING_PREFIX)\n"))
rmut("rf-par-r8-2+other-prefix", "par-r8-2", "C10", "C10.R", (PA, 'const CLOSING_PREFIX: &str = "/";', 'const CLOSING_PREFIX: &str = "\\\\";'))
rmut("rf-lst-r8-2+colour-twice", "lst-r8-2", "C16", "C16.R2", (LS, "    for part in parts {\n        out.push_str(part);\n    }", "    for part in parts {\n        out.push_str(part);\n    }\n    out.push_str(parts[0]);"))
rmut("rf-lst-r8-2+marker-dropped", "lst-r8-2", "C16", "C16.R", (LS, "[marker_end_color, MARKER_END, reset_color],", "[marker_end_color, reset_color, reset_color],"))
rmut("rf-ep-r8-2+value-to-name", "ep-r8-2", "C09", "C09.R1", (EP, "                                    let (_, value) = pairs.last_mut().expect(\"a name precedes '='\");\n                                    *value = Some(&target[start..pos]);\n                                    state = State::NameBegin\n                                }\n                            }\n                            State::ValueWithSingleQuote", "                                    let (value, _) = pairs.last_mut().expect(\"a name precedes '='\");\n                                    *value = &target[start..pos];\n                                    state = State::NameBegin\n                                }\n                            }\n                            State::ValueWithSingleQuote"))
rmut("rf-ep-r8-2+name-skipped", "ep-r8-2", "C09", "C09.R", (EP, "            let (name, _) = words.next()?;\n", "            words.next()?;\n            let (name, _) = words.next()?;\n"))
rmut("rf-par-r9-3+stack-not-popped", "par-r9-3", "C10", "C10.R10", (PA, "                    let popped = open_names.pop();\n                    debug_assert_eq!(popped, Some(el.name));\n", ""))
rmut("rf-par-r9-3+wrong-name-pushed", "par-r9-3", "C10", "C10.R", (PA, "                    open_names.push(el.name);", "                    open_names.push(\"\");"))
rmut("rf-rem-r10-1+window-takes-end-index", "rem-r10-1", "C12", "C12.R4", (RM, "                            .take(spliced)\n", "                            .take(end_cursor)\n"))
rmut("rf-fmt-r10-2+returns-line-break-itself", "fmt-r10-2", "C13", "C13.R6", (IR, "Some(b'\\n') => return (cursor + 1, byte_pos),", "Some(b'\\n') => return (cursor, byte_pos),"))
rmut("rf-fmt-r10-2+any-byte-found", "fmt-r10-2", "C02", "C02.R", (IR, "                _ => return (byte_pos, byte_pos),\n", "                _ => return (cursor + 1, byte_pos),\n"))
rmut("rf-lst-r10-2+only-first-line-numbered", "lst-r10-2", "C16", "C16.R9", (LS, "numbered = (first_line..=last_line)", "numbered = (first_line..=first_line)"))
rmut("rf-lst-r9-3+tuple-marker-dropped", "lst-r9-3", "C16", "C16.R8", (LS, "        (marker_end_color, MARKER_END, reset_color),", "        (marker_end_color, reset_color, reset_color),"))
rmut("rf-fmt-r8-2+line-break-included", "fmt-r8-2", "C13", "C13.R6", (IR, "b'\\n' => break Some(cursor + 1),", "b'\\n' => break Some(cursor),"))
rmut("rf-fmt-r8-2+any-byte-ends-indent", "fmt-r8-2", "C02", "C02.R", (IR, "                _ => break None,\n", "                _ => break Some(cursor + 1),\n"))

with open(os.path.join(os.path.dirname(os.path.abspath(__file__)), "mutants.json"), "w") as f:
    json.dump(C, f, indent=1)
print(len(C), "variants")

