//! Positive controls for rules whose expected match count on chiritori is zero: each function contains exactly one
//! construct that the named rule must report.  Analysed by the same driver on every thorough run.
use std::collections::HashMap;

/// purity: environment read
pub fn ctl_env() -> bool {
    std::env::var("CHIRITORI").is_ok()
}

/// purity: iteration order of a hash container
pub fn ctl_hash_iter(m: &HashMap<String, u32>) -> u32 {
    let mut last = 0;
    for (_, v) in m.iter() {
        last = *v;
    }
    last
}

/// OB: unguarded usize subtraction
pub fn ctl_sub(a: usize, b: usize) -> usize {
    a - b
}

/// OB: the same subtraction under a dominating guard must be discharged
pub fn ctl_sub_guarded(a: usize, b: usize) -> usize {
    if a < b {
        return 0;
    }
    a - b
}

/// OB: unguarded unwrap
pub fn ctl_unwrap(o: Option<u32>) -> u32 {
    o.unwrap()
}

/// OB: unguarded index
pub fn ctl_index(v: &[u8], i: usize) -> u8 {
    v[i]
}

/// OB: loop invariant (cursor != 0 at the head) must be found
pub fn ctl_loop(bytes: &[u8], start: usize) -> Option<usize> {
    let mut cursor = start;
    if cursor == 0 {
        return None;
    }
    loop {
        cursor -= 1;
        if cursor >= bytes.len() {
            break None;
        }
        if bytes[cursor] == b'\n' {
            break Some(cursor);
        }
        if cursor == 0 {
            break None;
        }
    }
}

/// units: a char_indices position + 1 used as a slice bound without an ASCII guard
pub fn ctl_slice(s: &str) -> &str {
    match s.char_indices().last() {
        Some((p, _)) => &s[..p + 1],
        None => s,
    }
}

/// units: the same under an ASCII guard is a boundary
pub fn ctl_slice_guarded(s: &str) -> &str {
    let mut end = 0;
    for (p, c) in s.char_indices() {
        match c {
            ';' => end = p + 1,
            _ => {}
        }
    }
    &s[..end]
}

/// unsafe rule
pub fn ctl_unsafe(v: &[u8]) -> u8 {
    unsafe { *v.get_unchecked(0) }
}
