//! Reproducers for the genuine defects found by the static checks (documentation / triage only:
//! no registered check runs this).  Usage: cargo run --offline -- [case-id]
use chiritori::chiritori::*;
use std::collections::HashSet;
use std::panic;
use std::rc::Rc;

fn cfg(targets: &[&str]) -> ChiritoriConfiguration {
    ChiritoriConfiguration {
        time_limited_configuration: TimeLimitedConfiguration {
            tag_name: "t".into(),
            time_offset: "+00:00".into(),
            current: "2024-06-01T00:00:00Z".parse().unwrap(),
        },
        removal_marker_configuration: RemovalMarkerConfiguration {
            tag_name: "m".into(),
            targets: targets.iter().map(|s| s.to_string()).collect::<HashSet<_>>(),
        },
    }
}

fn run(id: &str, src: &str, ds: &str, de: &str, targets: &[&str]) {
    let s = src.to_string();
    let (ds, de) = (ds.to_string(), de.to_string());
    let t: Vec<String> = targets.iter().map(|x| x.to_string()).collect();
    let r = panic::catch_unwind(move || {
        let tr: Vec<&str> = t.iter().map(|x| x.as_str()).collect();
        let c = clean(Rc::new(s.clone()), (ds.clone(), de.clone()), cfg(&tr));
        let l = list_all(Rc::new(s.clone()), (ds.clone(), de.clone()), cfg(&tr), ListFormat::JSON).unwrap();
        (c, l)
    });
    match r {
        Ok((c, l)) => println!("[{id}] clean -> {:?}\n[{id}] list_all -> {}", c, l),
        Err(e) => println!("[{id}] PANIC: {:?}", e.downcast_ref::<String>().map(|s| s.as_str()).or(e.downcast_ref::<&str>().copied())),
    }
}

fn main() {
    let only = std::env::args().nth(1);
    let want = |id: &str| only.as_deref().map_or(true, |o| o == id);
    panic::set_hook(Box::new(|_| {}));
    let old = "2000-01-01 00:00:00";
    if want("f1") { run("f1", "【a】", "【", "】", &[]); }
    if want("f2a") { run("f2a", "x< >y", "<", ">", &[]); }
    if want("f2b") { run("f2b", "<>>", "<", ">", &[]); }
    if want("f3") { run("f3", &format!("<t to=\"{old}\" unwrap-block>\nif {{ <m name=\"f\">\nmid\n}} </m>\n</t>\n"), "<", ">", &["f"]); }
    if want("f4") { run("f4", &format!("q\n    x <t to=\"{old}\" unwrap-block>\n    if {{ <m name=\"f\">\n  y </m>あz\n      body\n    }}\n</t>\n"), "<", ">", &["f"]); }
    if want("f6") { run("f6", &format!("a\n<t to=\"{old}\"\nskip>\nx\n</t>\nb\n"), "<", ">", &[]); }
    if want("f7") { run("f7", &format!("a\n//* <t to=\"{old}\"> */\nx\n/* </t> */\nb\n"), "/* <", "> */", &[]); }
    if want("f8") { run("f8", &format!("\nfoo\n<t to=\"{old}\">\nx\n</t>\nbar\n"), "<", ">", &[]); }
    if want("f8d") { run("f8d", &format!("\n<t to=\"{old}\">\nx\n</t>\nbar\n"), "<", ">", &[]); }
    if want("f8b") { run("f8b", &format!("<t to=\"{old}\" unwrap-block>\nif a {{\n    body\n}}\n</t>\nend\n"), "<", ">", &[]); }
    if want("f8c") { run("f8c", &format!("z\n<t to=\"{old}\" unwrap-block>\nif a {{\n    body\n}}\n</t>\nend\n"), "<", ">", &[]); }
    // C11: exactly two lines between the tags (the two wrapper lines, no inner line) must be unwrapped
    if want("f12") { run("f12", &format!("a\n<t to=\"{old}\" unwrap-block>\nif x {{\n}}\n</t>\nb\n"), "<", ">", &[]); }
    if want("f12b") { run("f12b", &format!("a\n<t to=\"{old}\" unwrap-block>\nif x {{\n  y\n}}\n</t>\nb\n"), "<", ">", &[]); }
    if want("f12c") { run("f12c", &format!("a\n<t to=\"{old}\" unwrap-block>\nonly\n</t>\nb\n"), "<", ">", &[]); }
    // C13: an indented tag on the first line of the file leaves its indentation behind
    if want("f13") { run("f13", &format!("  <t to=\"{old}\">\na\n  </t>\nrest\n"), "<", ">", &[]); }
    if want("f13b") { run("f13b", &format!("x\n  <t to=\"{old}\">\na\n  </t>\nrest\n"), "<", ">", &[]); }
    // C12: unwrap-block whose tag is indented on the first line of the file vs on a later line
    if want("f14") { run("f14", &format!("  <t to=\"{old}\" unwrap-block>\n  if a {{\n      body\n  }}\n  </t>\nend\n"), "<", ">", &[]); }
    if want("f14b") { run("f14b", &format!("x\n  <t to=\"{old}\" unwrap-block>\n  if a {{\n      body\n  }}\n  </t>\nend\n"), "<", ">", &[]); }
    // C12: nested unwrap-blocks
    if want("f15") { run("f15", &format!("z\n<t to=\"{old}\" unwrap-block>\nif a {{\n    <t to=\"{old}\" unwrap-block>\n    if b {{\n        body1\n    }}\n    </t>\n    after\n}}\n</t>\nend\n"), "<", ">", &[]); }
    if want("f9") { run("f9", "<m name=\"p\">\n1\n</m>\n<m name=\"q\">\n2\n</m>\n<m name=\"f\">\n3\n</m>\n", "<", ">", &["f"]); }
    if want("f11") { run("f11", &format!("x\n<t to=\"{old}\" unwrap-block>\nif a {{ <m name=\"f\">1</m> <m name=\"f\">2</m> <m name=\"f\">3</m>\n    <t to=\"{old}\" unwrap-block>\n    if b {{\n        body1\n    }}\n    </t>\n    after\n}}\n</t>\nend\n"), "<", ">", &["f"]); }
}
